(** Refinement of the pointer list of Model/ChunkList.v to an abstract [list nat]: which sequence of chunks a state
    represents, and what Remove / AddAfter / MoveAfter / Swap do to that sequence. *)
From Coq Require Import List Arith Bool Lia Permutation.
From UV Require Import Model.ChunkList.
Import ListNotations.

(** [chain s p l n]: the chunks of [l] are linked in this order, the first one's m_prev is [p], the last one's m_next is [n] *)
Fixpoint chain (s : st) (p : nat) (l : list nat) (n : nat) : Prop :=
  match l with
  | [] => True
  | x :: r => prv s x = p /\ nxt s x = hd n r /\ chain s x r n
  end.

Definition repr (s : st) (l : list nat) : Prop :=
  NoDup l /\ ~ In 0 l /\ hd_ s = hd 0 l /\ tl_ s = last l 0 /\ chain s 0 l 0.

(* ---------------------------------------------------------------- lists *)
Lemma last_cons : forall (r : list nat) x p, last (x :: r) p = last r x.
Proof. induction r as [|y r IH]; intros x p; [reflexivity|]. change (last (y :: r) p = last (y :: r) x). rewrite !IH. reflexivity. Qed.

Lemma last_in : forall (r : list nat) d, r <> [] -> In (last r d) r.
Proof.
  induction r as [|y r IH]; intros d H; [congruence|].
  destruct r as [|z r']; [left; reflexivity|]. right. change (In (last (z :: r') d) (z :: r')). apply IH. discriminate.
Qed.

Lemma last_app_ne : forall (l1 l2 : list nat) d, l2 <> [] -> last (l1 ++ l2) d = last l2 d.
Proof.
  induction l1 as [|x l1 IH]; intros l2 d H; [reflexivity|].
  simpl app. destruct (l1 ++ l2) eqn:E.
  - destruct l1; destruct l2; simpl in E; congruence.
  - rewrite <- E. change (last (x :: l1 ++ l2) d) with (last (x :: (l1 ++ l2)) d). rewrite E.
    change (last (n :: l) d = last l2 d). rewrite <- E. apply IH, H.
Qed.

Lemma hd_app : forall (r l2 : list nat) n, hd n (r ++ l2) = hd (hd n l2) r.
Proof. destruct r; reflexivity. Qed.

(* ---------------------------------------------------------------- chains *)
Lemma chain_app : forall l1 s p l2 n,
  chain s p (l1 ++ l2) n <-> chain s p l1 (hd n l2) /\ chain s (last l1 p) l2 n.
Proof.
  induction l1 as [|x r IH]; intros s p l2 n.
  - simpl. tauto.
  - rewrite last_cons. simpl app. cbn [chain]. rewrite hd_app, IH. tauto.
Qed.

Lemma chain_ext : forall l s s' p n,
  (forall y, In y l -> nxt s' y = nxt s y /\ prv s' y = prv s y) -> chain s p l n -> chain s' p l n.
Proof.
  induction l as [|x r IH]; intros s s' p n H C; [exact I|].
  cbn [chain] in *. destruct C as (C1 & C2 & C3). destruct (H x (or_introl eq_refl)) as [E1 E2].
  rewrite E1, E2. repeat split; auto. apply IH with (s := s); auto. intros y Hy. apply H. right. exact Hy.
Qed.

(** the m_next of the last chunk of a chain is redirected *)
Lemma chain_set_last : forall l1 s s' p n n',
  NoDup l1 -> chain s p l1 n ->
  (forall y, In y l1 -> prv s' y = prv s y) ->
  (forall y, In y l1 -> y <> last l1 p -> nxt s' y = nxt s y) ->
  (l1 <> [] -> nxt s' (last l1 p) = n') ->
  chain s' p l1 n'.
Proof.
  induction l1 as [|y r IH]; intros s s' p n n' ND C Hp Hn Hl; [exact I|].
  cbn [chain] in *. destruct C as (C1 & C2 & C3). apply NoDup_cons_iff in ND. destruct ND as [Hnin ND'].
  split; [rewrite Hp; [exact C1|left; reflexivity]|]. split.
  - destruct r as [|z r'].
    + simpl. apply (Hl ltac:(discriminate)).
    + simpl hd. rewrite Hn; [exact C2|left; reflexivity|].
      rewrite last_cons. intro E. apply Hnin. rewrite E. apply last_in. discriminate.
  - apply IH with (s := s) (n := n); auto.
    + intros z Hz. apply Hp. right. exact Hz.
    + intros z Hz Hne. apply Hn; [right; exact Hz|]. rewrite last_cons. exact Hne.
    + intros Hr. rewrite <- (last_cons r y p). apply Hl. discriminate.
Qed.

(** the m_prev of the first chunk of a chain is redirected *)
Lemma chain_set_first : forall l2 s s' p p' n,
  chain s p l2 n ->
  (forall y, In y l2 -> nxt s' y = nxt s y) ->
  (forall y, In y (tl l2) -> prv s' y = prv s y) ->
  (l2 <> [] -> prv s' (hd 0 l2) = p') ->
  chain s' p' l2 n.
Proof.
  intros [|x r] s s' p p' n C Hn Hp Hf; [exact I|].
  cbn [chain] in *. destruct C as (C1 & C2 & C3).
  split; [apply Hf; discriminate|]. split; [rewrite Hn; [exact C2|left; reflexivity]|].
  apply chain_ext with (s := s); auto. intros y Hy. split; [apply Hn; right; exact Hy|apply Hp; exact Hy].
Qed.

(* ---------------------------------------------------------------- Remove *)
Lemma eqb_false : forall a b, a <> b -> Nat.eqb a b = false.
Proof. intros. apply Nat.eqb_neq. assumption. Qed.

Ltac eqb_cases :=
  repeat (cbn [nxt prv hd_ tl_ isnl nlc set_hd set_tl set_prv set_nxt andb orb negb]; unfold upd;
          match goal with
          | |- context [Nat.eqb ?a ?b] => destruct (Nat.eqb_spec a b)
          end);
  cbn [nxt prv hd_ tl_ isnl nlc set_hd set_tl set_prv set_nxt andb orb negb].

Ltac eqb_all :=
  repeat match goal with
         | |- context [Nat.eqb ?a ?b] => destruct (Nat.eqb_spec a b)
         | H : context [Nat.eqb ?a ?b] |- _ => destruct (Nat.eqb_spec a b)
         end.

Lemma remove_char : forall s x, x <> 0 -> nxt s x <> x -> prv s x <> x ->
  let s' := remove s x in
  (forall y, nxt s' y = if Nat.eqb y x then 0 else if Nat.eqb y (prv s x) && negb (Nat.eqb (prv s x) 0) then nxt s x else nxt s y) /\
  (forall y, prv s' y = if Nat.eqb y x then 0 else if Nat.eqb y (nxt s x) && negb (Nat.eqb (nxt s x) 0) then prv s x else prv s y) /\
  hd_ s' = (if Nat.eqb (hd_ s) x then nxt s x else hd_ s) /\
  tl_ s' = (if Nat.eqb (tl_ s) x then prv s x else tl_ s).
Proof.
  intros s x Hx Hn Hp. unfold remove. rewrite (eqb_false x 0 Hx).
  destruct s as [nx pv h t i c]. cbn [nxt prv hd_ tl_] in *.
  repeat split; try intros y; eqb_cases; cbn [nxt prv hd_ tl_ set_hd set_tl set_prv set_nxt] in *; unfold upd in *; eqb_all; subst; try reflexivity; try congruence; try lia.
Qed.

Lemma nodup_mid : forall (l1 l2 : list nat) x, NoDup (l1 ++ x :: l2) ->
  NoDup (l1 ++ l2) /\ ~ In x l1 /\ ~ In x l2 /\ (forall y, In y l1 -> ~ In y l2).
Proof.
  intros l1 l2 x H. split; [apply NoDup_remove_1 with (a := x); exact H|].
  pose proof (NoDup_remove_2 _ _ _ H) as H2.
  split; [intro; apply H2; apply in_or_app; auto|]. split; [intro; apply H2; apply in_or_app; auto|].
  intros y H1 H3. apply NoDup_remove_1 in H. revert H H1 H3. clear. induction l1 as [|a l1 IH]; simpl; intros ND H1 H3; [contradiction|].
  apply NoDup_cons_iff in ND. destruct ND as [Na ND]. destruct H1 as [->|H1]; [apply Na; apply in_or_app; auto|eauto].
Qed.

Lemma nodup_app_l : forall (l1 l2 : list nat), NoDup (l1 ++ l2) -> NoDup l1.
Proof. induction l1 as [|a l1 IH]; intros l2 H; [constructor|]. simpl in H. apply NoDup_cons_iff in H. destruct H as [Na H].
  constructor; [intro; apply Na; apply in_or_app; auto|eauto]. Qed.
Lemma nodup_app_r : forall (l1 l2 : list nat), NoDup (l1 ++ l2) -> NoDup l2.
Proof. induction l1 as [|a l1 IH]; intros l2 H; [exact H|]. simpl in H. apply NoDup_cons_iff in H. apply IH. tauto. Qed.

Lemma hd_in : forall (l : list nat), l <> [] -> In (hd 0 l) l.
Proof. destruct l; [congruence|left; reflexivity]. Qed.

Lemma eqb_refl' : forall a, Nat.eqb a a = true. Proof. intros; apply Nat.eqb_refl. Qed.

Theorem remove_repr : forall s l1 x l2,
  repr s (l1 ++ x :: l2) ->
  repr (remove s x) (l1 ++ l2) /\ nxt (remove s x) x = 0 /\ prv (remove s x) x = 0 /\
  isnl (remove s x) = isnl s /\ nlc (remove s x) = nlc s.
Proof.
  intros s l1 x l2 (ND & N0 & Hh & Ht & C).
  destruct (nodup_mid _ _ _ ND) as (ND' & X1 & X2 & X12).
  apply chain_app in C. destruct C as [C1 C2]. cbn [chain hd] in C1, C2. destruct C2 as (Cp & Cn & C2).
  assert (Hx : x <> 0) by (intro; subst; apply N0; apply in_or_app; right; left; reflexivity).
  assert (Z1 : forall y, In y l1 -> y <> 0) by (intros y Hy E; subst; apply N0; apply in_or_app; auto).
  assert (Z2 : forall y, In y l2 -> y <> 0) by (intros y Hy E; subst; apply N0; apply in_or_app; right; right; auto).
  assert (Hnx : nxt s x <> x).
  { rewrite Cn. destruct l2 as [|z l2']; [simpl; congruence|]. simpl. intro; subst. apply X2. left; reflexivity. }
  assert (Hpx : prv s x <> x).
  { rewrite Cp. destruct l1 as [|z l1'] eqn:E1; [simpl; congruence|]. rewrite <- E1 in *. intro E. apply X1. rewrite <- E. apply last_in. subst; discriminate. }
  destruct (remove_char s x Hx Hnx Hpx) as (RN & RP & RH & RT).
  set (s' := remove s x) in *.
  assert (Hisnl : isnl s' = isnl s /\ nlc s' = nlc s).
  { unfold s', remove. rewrite (eqb_false x 0 Hx).
    repeat match goal with |- context [if ?b then _ else _] => destruct b end; split; reflexivity. }
  split; [|split; [rewrite RN, eqb_refl'; reflexivity|split; [rewrite RP, eqb_refl'; reflexivity|exact Hisnl]]].
  unfold repr. split; [exact ND'|]. split; [intro H0; apply N0; apply in_app_or in H0; apply in_or_app; destruct H0; [left|right; right]; assumption|].
  split; [|split].
  - rewrite RH, Hh. destruct l1 as [|z l1']; simpl.
    + rewrite eqb_refl'. exact Cn.
    + rewrite eqb_false; [reflexivity|]. intro; subst. apply X1. left; reflexivity.
  - rewrite RT, Ht. destruct l2 as [|z l2'].
    + rewrite last_app_ne by discriminate. simpl. rewrite eqb_refl'. rewrite app_nil_r. exact Cp.
    + rewrite !last_app_ne by discriminate. change (last (x :: z :: l2') 0) with (last (z :: l2') 0).
      rewrite eqb_false; [reflexivity|]. intro E. apply X2. rewrite <- E. apply last_in. discriminate.
  - apply chain_app. split.
    + apply chain_set_last with (s := s) (n := x).
      * apply nodup_app_l in ND'. exact ND'.
      * exact C1.
      * intros y Hy. rewrite RP. rewrite eqb_false by (intro; subst; contradiction).
        destruct (Nat.eqb_spec y (nxt s x)) as [E|E]; [|reflexivity]. simpl.
        destruct (Nat.eqb_spec (nxt s x) 0) as [E0|E0]; [reflexivity|]. simpl. exfalso.
        rewrite Cn in E, E0. destruct l2 as [|z l2']; [simpl in E0; congruence|]. simpl in E. apply (X12 y Hy). left. congruence.
      * intros y Hy Hne. rewrite RN. rewrite eqb_false by (intro; subst; contradiction).
        rewrite Cp. rewrite (eqb_false y (last l1 0) Hne). reflexivity.
      * intros Hl1. rewrite RN. pose proof (last_in l1 0 Hl1) as Hin. rewrite eqb_false by (intro E; rewrite E in Hin; contradiction).
        rewrite Cp, eqb_refl'. rewrite (eqb_false _ 0 (Z1 _ Hin)). simpl. exact Cn.
    + apply chain_set_first with (s := s) (p := x).
      * exact C2.
      * intros y Hy. rewrite RN. rewrite eqb_false by (intro; subst; contradiction).
        destruct (Nat.eqb_spec y (prv s x)) as [E|E]; [|reflexivity]. simpl.
        destruct (Nat.eqb_spec (prv s x) 0) as [E0|E0]; [reflexivity|]. simpl. exfalso.
        rewrite Cp in E, E0. destruct l1 as [|z l1'] eqn:E1; [simpl in E0; congruence|]. rewrite <- E1 in *.
        apply (X12 y); [rewrite E; apply last_in; subst; discriminate|exact Hy].
      * intros y Hy. rewrite RP. destruct l2 as [|z l2']; [contradiction|]. simpl in Hy.
        rewrite eqb_false by (intro; subst; apply X2; right; exact Hy).
        rewrite Cn. simpl. rewrite eqb_false; [reflexivity|].
        intro; subst. apply nodup_app_r in ND'. apply NoDup_cons_iff in ND'. tauto.
      * intros Hl2. pose proof (hd_in l2 Hl2) as Hin. rewrite RP. rewrite eqb_false by (intro E; rewrite E in Hin; contradiction).
        rewrite Cn, eqb_refl'. rewrite (eqb_false _ 0 (Z2 _ Hin)). simpl. exact Cp.
Qed.

(* ---------------------------------------------------------------- AddAfter *)
Lemma add_after_char : forall s o r, o <> 0 -> r <> 0 -> o <> r -> nxt s r <> o ->
  let s' := add_after s o r in
  (forall y, nxt s' y = if Nat.eqb y r then o else if Nat.eqb y o then nxt s r else nxt s y) /\
  (forall y, prv s' y = if Nat.eqb y (nxt s r) && negb (Nat.eqb (nxt s r) 0) then o else if Nat.eqb y o then r else prv s y) /\
  hd_ s' = hd_ s /\
  tl_ s' = (if Nat.eqb (nxt s r) 0 then o else tl_ s) /\ isnl s' = isnl s /\ nlc s' = nlc s.
Proof.
  intros s o r Ho Hr Hor Hn. unfold add_after. rewrite (eqb_false o 0 Ho), (eqb_false r 0 Hr). cbn [orb].
  destruct s as [nx pv h t i c]. cbn [nxt prv hd_ tl_] in *.
  repeat split; try intros y; eqb_cases; cbn [nxt prv hd_ tl_ isnl nlc set_hd set_tl set_prv set_nxt] in *; unfold upd in *; eqb_all; subst; try reflexivity; try congruence; try lia.
Qed.

Lemma nodup_insert : forall (l1 l2 : list nat) o, NoDup (l1 ++ l2) -> ~ In o (l1 ++ l2) -> NoDup (l1 ++ o :: l2).
Proof.
  intros l1 l2 o ND Hn. apply Permutation_NoDup with (l := o :: l1 ++ l2); [apply Permutation_middle|constructor; assumption].
Qed.

Theorem add_after_repr : forall s l1 r l2 o,
  repr s (l1 ++ r :: l2) -> o <> 0 -> ~ In o (l1 ++ r :: l2) ->
  repr (add_after s o r) (l1 ++ r :: o :: l2) /\ isnl (add_after s o r) = isnl s /\ nlc (add_after s o r) = nlc s.
Proof.
  intros s l1 r l2 o (ND & N0 & Hh & Ht & C) Ho Hnin.
  destruct (nodup_mid _ _ _ ND) as (ND' & X1 & X2 & X12).
  apply chain_app in C. destruct C as [C1 C2]. cbn [chain hd] in C1, C2. destruct C2 as (Cp & Cn & C2).
  assert (Hr : r <> 0) by (intro; subst; apply N0; apply in_or_app; right; left; reflexivity).
  assert (Hor : o <> r) by (intro; subst; apply Hnin; apply in_or_app; right; left; reflexivity).
  assert (O1 : ~ In o l1) by (intro; apply Hnin; apply in_or_app; auto).
  assert (O2 : ~ In o l2) by (intro; apply Hnin; apply in_or_app; right; right; auto).
  assert (Z2 : forall y, In y l2 -> y <> 0) by (intros y Hy E; subst; apply N0; apply in_or_app; right; right; auto).
  assert (Hno : nxt s r <> o).
  { rewrite Cn. destruct l2 as [|z l2']; simpl; [congruence|]. intro; subst. apply O2. left; reflexivity. }
  destruct (add_after_char s o r Ho Hr Hor Hno) as (RN & RP & RH & RT & RI & RC).
  remember (add_after s o r) as s' eqn:Es'. clear Es'.
  split; [|split; assumption].
  unfold repr. split.
  { change (l1 ++ r :: o :: l2) with (l1 ++ [r] ++ o :: l2). rewrite app_assoc. apply nodup_insert; rewrite <- app_assoc; simpl; assumption. }
  split.
  { intro H0. apply in_app_or in H0. destruct H0 as [H0|[H0|[H0|H0]]]; try congruence.
    - apply N0. apply in_or_app; auto.
    - apply N0. apply in_or_app; right; right; auto. }
  split; [rewrite RH, Hh; destruct l1; reflexivity|]. split.
  - rewrite RT, Ht, Cn. destruct l2 as [|z l2'].
    + simpl. rewrite !last_app_ne by discriminate. reflexivity.
    + simpl hd. rewrite (eqb_false z 0 (Z2 z (or_introl eq_refl))). rewrite !last_app_ne by discriminate. reflexivity.
  - apply chain_app. split.
    + simpl hd. apply chain_ext with (s := s); [|exact C1]. intros y Hy. split.
      * rewrite RN. rewrite eqb_false by (intro; subst; contradiction). rewrite eqb_false by (intro; subst; contradiction). reflexivity.
      * rewrite RP. destruct (Nat.eqb_spec y (nxt s r)) as [E|E].
        -- simpl. destruct (Nat.eqb_spec (nxt s r) 0) as [E0|E0]; simpl.
           ++ rewrite eqb_false by (intro; subst; contradiction). reflexivity.
           ++ exfalso. rewrite Cn in E, E0. destruct l2 as [|z l2']; [simpl in E0; congruence|]. simpl in E. apply (X12 y Hy). left; congruence.
        -- simpl. rewrite eqb_false by (intro; subst; contradiction). reflexivity.
    + cbn [chain hd]. split; [|split; [|split; [|split]]].
      * rewrite RP. rewrite (eqb_false r o) by congruence.
        destruct (Nat.eqb_spec r (nxt s r)) as [E|E]; simpl; [|exact Cp].
        destruct (Nat.eqb_spec (nxt s r) 0) as [E0|E0]; simpl; [exact Cp|]. exfalso.
        rewrite Cn in E. destruct l2 as [|z l2']; [simpl in E; congruence|]. simpl in E. apply X2. left; congruence.
      * rewrite RN, eqb_refl'. reflexivity.
      * rewrite RP, eqb_refl'. rewrite (eqb_false o (nxt s r)) by congruence. reflexivity.
      * rewrite RN, (eqb_false o r Hor), eqb_refl'. exact Cn.
      * apply chain_set_first with (s := s) (p := r).
        -- exact C2.
        -- intros y Hy. rewrite RN. rewrite eqb_false by (intro; subst; contradiction). rewrite eqb_false by (intro; subst; contradiction). reflexivity.
        -- intros y Hy. rewrite RP. destruct l2 as [|z l2']; [contradiction|]. simpl in Hy. rewrite Cn. simpl hd.
           rewrite (eqb_false y z). 2:{ intro; subst. apply nodup_app_r in ND'. apply NoDup_cons_iff in ND'. tauto. }
           simpl. rewrite eqb_false by (intro; subst; apply O2; right; exact Hy). reflexivity.
        -- intros Hl2. pose proof (hd_in l2 Hl2) as Hin. rewrite RP, Cn, eqb_refl'. rewrite (eqb_false _ 0 (Z2 _ Hin)). reflexivity.
Qed.

(* ---------------------------------------------------------------- the abstract list operations *)
Fixpoint rem (x : nat) (l : list nat) : list nat :=
  match l with [] => [] | y :: t => if Nat.eqb y x then t else y :: rem x t end.
Fixpoint ins_after (r o : nat) (l : list nat) : list nat :=
  match l with [] => [] | y :: t => if Nat.eqb y r then y :: o :: t else y :: ins_after r o t end.

Lemma rem_split : forall l1 x l2, ~ In x l1 -> rem x (l1 ++ x :: l2) = l1 ++ l2.
Proof.
  induction l1 as [|y l1 IH]; intros x l2 H; simpl; [rewrite eqb_refl'; reflexivity|].
  rewrite eqb_false by (intro; subst; apply H; left; reflexivity). rewrite IH; [reflexivity|]. intro; apply H; right; assumption.
Qed.
Lemma ins_split : forall m1 r o m2, ~ In r m1 -> ins_after r o (m1 ++ r :: m2) = m1 ++ r :: o :: m2.
Proof.
  induction m1 as [|y m1 IH]; intros r o m2 H; simpl; [rewrite eqb_refl'; reflexivity|].
  rewrite eqb_false by (intro; subst; apply H; left; reflexivity). rewrite IH; [reflexivity|]. intro; apply H; right; assumption.
Qed.

Lemma split_nodup : forall (l : list nat) x, NoDup l -> In x l -> exists l1 l2, l = l1 ++ x :: l2 /\ ~ In x l1 /\ ~ In x l2.
Proof.
  intros l x ND H. destruct (in_split _ _ H) as (l1 & l2 & ->). exists l1, l2. split; [reflexivity|].
  destruct (nodup_mid _ _ _ ND) as (_ & A & B & _). split; assumption.
Qed.

Lemma rem_perm : forall l x, In x l -> Permutation l (x :: rem x l).
Proof.
  induction l as [|y l IH]; intros x H; [contradiction|]. simpl. destruct (Nat.eqb_spec y x) as [->|E]; [reflexivity|].
  destruct H as [H|H]; [congruence|]. rewrite perm_swap. constructor. apply IH, H.
Qed.
Lemma ins_perm : forall l r o, In r l -> Permutation (o :: l) (ins_after r o l).
Proof.
  induction l as [|y l IH]; intros r o H; [contradiction|]. simpl. destruct (Nat.eqb_spec y r) as [->|E]; [apply perm_swap|].
  destruct H as [H|H]; [congruence|]. rewrite perm_swap. constructor. apply IH, H.
Qed.
Lemma rem_in : forall l x y, In y (rem x l) -> In y l.
Proof. induction l as [|z l IH]; intros x y H; [contradiction|]. simpl in H. destruct (Nat.eqb z x); [right; exact H|]. destruct H; [left; assumption|right; eauto]. Qed.
Lemma rem_in_other : forall l x y, In y l -> y <> x -> In y (rem x l).
Proof. induction l as [|z l IH]; intros x y H N; [contradiction|]. simpl. destruct (Nat.eqb_spec z x) as [->|E]; destruct H as [H|H]; try congruence; auto. - left; exact H. - right; auto. Qed.
Lemma rem_notin : forall l x, NoDup l -> ~ In x (rem x l).
Proof.
  induction l as [|z l IH]; intros x ND H; [contradiction|]. apply NoDup_cons_iff in ND. destruct ND as [Nz ND]. simpl in H.
  destruct (Nat.eqb_spec z x) as [->|E]; [contradiction|]. destruct H as [H|H]; [congruence|]. exact (IH x ND H).
Qed.

Theorem remove_abs : forall s l x, repr s l -> In x l ->
  repr (remove s x) (rem x l) /\ nxt (remove s x) x = 0 /\ prv (remove s x) x = 0 /\ isnl (remove s x) = isnl s /\ nlc (remove s x) = nlc s.
Proof.
  intros s l x R H. destruct (split_nodup l x (proj1 R) H) as (l1 & l2 & -> & A & B). rewrite rem_split by exact A. apply remove_repr, R.
Qed.

Theorem add_after_abs : forall s l r o, repr s l -> In r l -> o <> 0 -> ~ In o l ->
  repr (add_after s o r) (ins_after r o l) /\ isnl (add_after s o r) = isnl s /\ nlc (add_after s o r) = nlc s.
Proof.
  intros s l r o R H Ho Hn. destruct (split_nodup l r (proj1 R) H) as (l1 & l2 & -> & A & B). rewrite ins_split by exact A. apply add_after_repr; assumption.
Qed.

(** Chunk::MoveAfter on the abstract list: the chunk leaves its place and reappears directly behind the reference *)
Theorem move_after_abs : forall s l x r, repr s l -> In x l -> In r l -> x <> r ->
  repr (move_after s x r) (ins_after r x (rem x l)).
Proof.
  intros s l x r R Hx Hr Hne. unfold move_after. rewrite (eqb_false x r Hne).
  destruct (remove_abs s l x R Hx) as (R' & _).
  apply add_after_abs; auto.
  - apply rem_in_other; auto.
  - intro; subst. destruct R as (_ & N0 & _). contradiction.
  - apply rem_notin. exact (proj1 R).
Qed.

Theorem move_after_perm : forall s l x r, repr s l -> In x l -> In r l -> x <> r ->
  exists l', repr (move_after s x r) l' /\ Permutation l l'.
Proof.
  intros s l x r R Hx Hr Hne. exists (ins_after r x (rem x l)). split; [apply move_after_abs; assumption|].
  rewrite (rem_perm l x Hx) at 1. apply ins_perm. apply rem_in_other; auto.
Qed.

(** a walk from the head along m_next sees exactly the represented list (enough fuel: more than its length) *)
Lemma walk_chain : forall l s p fuel, chain s p l 0 -> ~ In 0 l -> length l < fuel -> walk fuel (nxt s) (hd 0 l) = l.
Proof.
  induction l as [|x r IH]; intros s p fuel C N0 Hf.
  - destruct fuel; [simpl in Hf; lia|]. reflexivity.
  - destruct fuel; [simpl in Hf; lia|]. cbn [chain] in C. destruct C as (_ & Cn & C). simpl hd. simpl walk.
    rewrite eqb_false by (intro; subst; apply N0; left; reflexivity). f_equal. rewrite Cn.
    apply IH with (p := x); [exact C|intro; apply N0; right; assumption|simpl in Hf; lia].
Qed.

Theorem to_list_repr : forall s l fuel, repr s l -> length l < fuel -> to_list fuel s = l.
Proof. intros s l fuel (_ & N0 & Hh & _ & C) Hf. unfold to_list. rewrite Hh. apply walk_chain with (p := 0); assumption. Qed.

(** the precondition that ChunkListManager::Swap needs and does not test: with the first chunk of the list and a chunk
    that is not its neighbour (or the first chunk itself) a chunk is lost *)
Definition three : st := cl_run 4 [NewAfter 1 0 false 0; NewAfter 2 1 false 0; NewAfter 3 2 false 0].
Lemma three_repr : to_list 4 three = [1; 2; 3] /\ to_list_back 4 three = [3; 2; 1].
Proof. vm_compute. split; reflexivity. Qed.
Theorem swap_with_first_chunk_refuted :
  to_list 4 (swap three 1 3) = [2; 1] /\ ~ Permutation (to_list 4 (swap three 1 3)) [1; 2; 3].
Proof. split; [vm_compute; reflexivity|]. intro P. apply Permutation_length in P. vm_compute in P. discriminate. Qed.
Theorem swap_first_with_itself_refuted : to_list 4 (swap three 1 1) = [2; 3].
Proof. vm_compute. reflexivity. Qed.

(* ---------------------------------------------------------------- sequences of operations *)
Lemma fresh_repr : forall s l o nl c, repr s l -> ~ In o l -> repr (fresh s o nl c) l.
Proof.
  intros s l o nl c (ND & N0 & Hh & Ht & C) Hn. unfold repr. repeat split; auto.
  apply chain_ext with (s := s); [|exact C]. intros y Hy. unfold fresh. cbn [nxt prv set_prv set_nxt set_nlc set_isnl]. unfold upd.
  rewrite eqb_false by (intro; subst; contradiction). split; reflexivity.
Qed.

Definition ok_op (l : list nat) (p : op) : Prop :=
  match p with
  | Delete x => In x l
  | MoveAfter x r => In x l /\ In r l /\ x <> r
  | NewAfter o r _ _ => In r l /\ o <> 0 /\ ~ In o l
  | _ => False
  end.
Definition abs_op (l : list nat) (p : op) : list nat :=
  match p with
  | Delete x => rem x l
  | MoveAfter x r => ins_after r x (rem x l)
  | NewAfter o r _ _ => ins_after r o l
  | _ => l
  end.
Fixpoint oks (l : list nat) (ops : list op) : Prop :=
  match ops with [] => True | p :: ps => ok_op l p /\ oks (abs_op l p) ps end.

Lemma step_refines : forall fuel s l p, repr s l -> ok_op l p -> repr (step fuel s p) (abs_op l p).
Proof.
  intros fuel s l p R H. destruct p as [o r nl c|o r nl c|x|x r|a b|a b]; simpl in H; try contradiction; simpl.
  - destruct H as (Hr & Ho & Hn). rewrite eqb_false by (intro; subst; destruct R as (_ & N0 & _); contradiction).
    apply add_after_abs; auto. apply fresh_repr; assumption.
  - apply remove_abs; assumption.
  - destruct H as (Hx & Hr & Hne). apply move_after_abs; assumption.
Qed.

(** every reachable state: a sequence of CopyAndAddAfter / Delete / MoveAfter whose arguments are chunks of the list (the
    contract under which the passes call them) keeps the doubly linked list exactly the abstract sequence *)
Theorem run_refines : forall fuel ops s l, repr s l -> oks l ops ->
  repr (fold_left (step fuel) ops s) (fold_left abs_op ops l).
Proof.
  intros fuel ops. induction ops as [|p ps IH]; intros s l R H; [exact R|].
  cbn [fold_left]. destruct H as [H1 H2]. apply IH; [apply step_refines; assumption|exact H2].
Qed.

Fixpoint all_moves (ops : list op) : Prop :=
  match ops with [] => True | MoveAfter _ _ :: t => all_moves t | _ => False end.

Theorem moves_permute : forall fuel ops s l, repr s l -> oks l ops -> all_moves ops ->
  exists l', repr (fold_left (step fuel) ops s) l' /\ Permutation l l'.
Proof.
  intros fuel ops s l R H M. exists (fold_left abs_op ops l). split; [apply run_refines; assumption|].
  clear R s. revert l H M. induction ops as [|p ps IH]; intros l H M; [reflexivity|].
  destruct p as [o r nl c|o r nl c|x|x r|a b|a b]; simpl in M; try contradiction.
  cbn [fold_left]. destruct H as [(Hx & Hr & Hne) H2].
  transitivity (abs_op l (MoveAfter x r)); [|apply IH; assumption].
  simpl. rewrite (rem_perm l x Hx) at 1. apply ins_perm. apply rem_in_other; auto.
Qed.

Example three_is_a_list : repr three [1; 2; 3] /\ oks [1; 2; 3] [MoveAfter 1 3; MoveAfter 2 1; NewAfter 4 2 true 1; Delete 3].
Proof.
  split.
  - unfold repr. vm_compute. repeat split; try reflexivity.
    + repeat constructor; simpl; intuition congruence.
    + intuition congruence.
  - vm_compute. intuition congruence.
Qed.

(* ---------------------------------------------------------------- Swap, the two chunks not neighbours *)
Lemma prv_in : forall s l x, repr s l -> In x l -> prv s x = 0 \/ (In (prv s x) l /\ prv s x <> x).
Proof.
  intros s l x R H. destruct (split_nodup l x (proj1 R) H) as (l1 & l2 & -> & A & B).
  destruct R as (ND & N0 & Hh & Ht & C). apply chain_app in C. destruct C as [_ C]. cbn [chain] in C. destruct C as (Cp & _).
  destruct l1 as [|z l1'] eqn:E; [left; exact Cp|]. rewrite <- E in *. right. assert (Hl : In (last l1 0) l1) by (apply last_in; subst; discriminate).
  rewrite Cp. split; [apply in_or_app; left; exact Hl|]. intro E2. apply A. rewrite <- E2. exact Hl.
Qed.

(** ChunkListManager::Swap, general branch.  The hypotheses say what the code silently relies on: neither chunk is the
    first of the list at the moment its old predecessor is read.  The result is given by the abstract list operations;
    it is a permutation of the list. *)
Theorem swap_far_abs : forall s l a b,
  repr s l -> In a l -> In b l -> a <> b -> prv s a <> b -> prv s b <> a ->
  prv s a <> 0 -> prv (remove s a) b <> 0 ->
  let p1 := prv s a in let p2 := prv (remove s a) b in
  let l' := ins_after p1 b (ins_after p2 a (rem b (rem a l))) in
  repr (swap s a b) l' /\ Permutation l l'.
Proof.
  intros s l a b R Ha Hb Hab Hna Hnb Hp1 Hp2 p1 p2 l'.
  assert (A0 : a <> 0) by (intro; subst; destruct R as (_ & N0 & _); contradiction).
  assert (B0 : b <> 0) by (intro; subst; destruct R as (_ & N0 & _); contradiction).
  unfold swap. rewrite (eqb_false a 0 A0), (eqb_false b 0 B0). cbn [orb].
  rewrite (eqb_false _ _ Hna), (eqb_false _ _ Hnb). fold p1. fold p2.
  destruct (remove_abs s l a R Ha) as (R1 & _).
  assert (Hb1 : In b (rem a l)) by (apply rem_in_other; auto).
  destruct (remove_abs (remove s a) (rem a l) b R1 Hb1) as (R2 & _).
  assert (ND : NoDup l) by exact (proj1 R).
  assert (ND1 : NoDup (rem a l)) by exact (proj1 R1).
  assert (P1 : In p1 l /\ p1 <> a) by (destruct (prv_in s l a R Ha) as [E|E]; [contradiction|exact E]).
  assert (P2 : In p2 (rem a l) /\ p2 <> b) by (destruct (prv_in _ _ b R1 Hb1) as [E|E]; [contradiction|exact E]).
  assert (P2' : In p2 (rem b (rem a l))) by (apply rem_in_other; tauto).
  assert (Na : ~ In a (rem b (rem a l))) by (intro H; apply rem_in in H; revert H; apply rem_notin; exact ND).
  destruct (add_after_abs _ _ p2 a R2 P2' A0 Na) as (R3 & _).
  assert (P1' : In p1 (ins_after p2 a (rem b (rem a l)))).
  { apply (Permutation_in p1 (ins_perm _ p2 a P2')). right. apply rem_in_other; [apply rem_in_other; tauto|exact Hna]. }
  assert (Nb : ~ In b (ins_after p2 a (rem b (rem a l)))).
  { intro H. apply (Permutation_in b (Permutation_sym (ins_perm _ p2 a P2'))) in H. destruct H as [H|H]; [congruence|].
    revert H. apply rem_notin. exact ND1. }
  destruct (add_after_abs _ _ p1 b R3 P1' B0 Nb) as (R4 & _).
  split; [exact R4|].
  unfold l'. rewrite <- (ins_perm _ p1 b P1'). rewrite <- (ins_perm _ p2 a P2').
  rewrite (rem_perm l a Ha) at 1. rewrite (rem_perm (rem a l) b Hb1) at 1. apply perm_swap.
Qed.

Example swap_far_applies : to_list 5 (swap (cl_run 5 [NewAfter 1 0 false 0; NewAfter 2 1 false 0; NewAfter 3 2 false 0; NewAfter 4 3 false 0]) 2 4) = [1; 4; 3; 2].
Proof. vm_compute. reflexivity. Qed.

(* ---------------------------------------------------------------- AddBefore *)
Definition link_before (s : st) (o r : nat) : st :=
  let s1 := set_nxt s o r in
  let s2 := set_prv s1 o (prv s1 r) in
  let s3 := if Nat.eqb (prv s2 r) 0 then set_hd s2 o else set_nxt s2 (prv s2 r) o in
  set_prv s3 r o.

Lemma add_before_link : forall s o r, o <> 0 -> r <> 0 -> add_before s o r = link_before (remove s o) o r.
Proof. intros s o r Ho Hr. unfold add_before. rewrite (eqb_false o 0 Ho), (eqb_false r 0 Hr). reflexivity. Qed.

Lemma link_before_char : forall s o r, o <> 0 -> r <> 0 -> o <> r -> prv s r <> o ->
  let s' := link_before s o r in
  (forall y, nxt s' y = if Nat.eqb y (prv s r) && negb (Nat.eqb (prv s r) 0) then o else if Nat.eqb y o then r else nxt s y) /\
  (forall y, prv s' y = if Nat.eqb y r then o else if Nat.eqb y o then prv s r else prv s y) /\
  hd_ s' = (if Nat.eqb (prv s r) 0 then o else hd_ s) /\
  tl_ s' = tl_ s /\ isnl s' = isnl s /\ nlc s' = nlc s.
Proof.
  intros s o r Ho Hr Hor Hn. unfold link_before.
  destruct s as [nx pv h t i c]. cbn [nxt prv hd_ tl_] in *.
  repeat split; try intros y; eqb_cases; cbn [nxt prv hd_ tl_ isnl nlc set_hd set_tl set_prv set_nxt] in *; unfold upd in *; eqb_all; subst; try reflexivity; try congruence; try lia.
Qed.

Theorem link_before_repr : forall s l1 r l2 o,
  repr s (l1 ++ r :: l2) -> o <> 0 -> ~ In o (l1 ++ r :: l2) ->
  repr (link_before s o r) (l1 ++ o :: r :: l2) /\ isnl (link_before s o r) = isnl s /\ nlc (link_before s o r) = nlc s.
Proof.
  intros s l1 r l2 o (ND & N0 & Hh & Ht & C) Ho Hnin.
  destruct (nodup_mid _ _ _ ND) as (ND' & X1 & X2 & X12).
  apply chain_app in C. destruct C as [C1 C2]. cbn [chain hd] in C1, C2. destruct C2 as (Cp & Cn & C2).
  assert (Hr : r <> 0) by (intro; subst; apply N0; apply in_or_app; right; left; reflexivity).
  assert (Hor : o <> r) by (intro; subst; apply Hnin; apply in_or_app; right; left; reflexivity).
  assert (O1 : ~ In o l1) by (intro; apply Hnin; apply in_or_app; auto).
  assert (O2 : ~ In o l2) by (intro; apply Hnin; apply in_or_app; right; right; auto).
  assert (Z1 : forall y, In y l1 -> y <> 0) by (intros y Hy E; subst; apply N0; apply in_or_app; auto).
  assert (Hpo : prv s r <> o).
  { rewrite Cp. destruct l1 as [|z l1'] eqn:E1; [simpl; congruence|]. rewrite <- E1 in *. intro E. apply O1. rewrite <- E. apply last_in. subst; discriminate. }
  assert (Hlast : l1 <> [] -> In (last l1 0) l1) by (intro; apply last_in; assumption).
  destruct (link_before_char s o r Ho Hr Hor Hpo) as (RN & RP & RH & RT & RI & RC).
  remember (link_before s o r) as s' eqn:Es'. clear Es'.
  split; [|split; assumption].
  unfold repr. split.
  { apply nodup_insert; assumption. }
  split.
  { intro H0. apply in_app_or in H0. destruct H0 as [H0|[H0|H0]]; try congruence.
    - apply N0. apply in_or_app; auto.
    - apply N0. apply in_or_app; right; exact H0. }
  split.
  { rewrite RH, Hh, Cp. destruct l1 as [|z l1'] eqn:E1; [reflexivity|]. rewrite <- E1 in *.
    rewrite (eqb_false _ 0 (Z1 _ (Hlast ltac:(subst; discriminate)))). subst; reflexivity. }
  split.
  { rewrite RT, Ht. rewrite !last_app_ne by discriminate. reflexivity. }
  apply chain_app. split.
  - simpl hd. apply chain_set_last with (s := s) (n := r).
    + apply nodup_app_l in ND'. exact ND'.
    + exact C1.
    + intros y Hy. rewrite RP. rewrite eqb_false by (intro; subst; contradiction). rewrite eqb_false by (intro; subst; contradiction). reflexivity.
    + intros y Hy Hne. rewrite RN, Cp. rewrite (eqb_false y (last l1 0) Hne). simpl. rewrite eqb_false by (intro; subst; contradiction). reflexivity.
    + intros Hl1. rewrite RN, Cp, eqb_refl'. rewrite (eqb_false _ 0 (Z1 _ (Hlast Hl1))). reflexivity.
  - cbn [chain hd]. split; [|split; [|split; [|split]]].
    + rewrite RP, (eqb_false o r Hor), eqb_refl'. exact Cp.
    + rewrite RN, eqb_refl'. destruct (Nat.eqb_spec o (prv s r)) as [E|E]; [congruence|]. reflexivity.
    + rewrite RP, eqb_refl'. reflexivity.
    + rewrite RN. rewrite (eqb_false r o) by congruence.
      destruct (Nat.eqb_spec r (prv s r)) as [E|E]; simpl; [|exact Cn].
      destruct (Nat.eqb_spec (prv s r) 0) as [E0|E0]; simpl; [exact Cn|]. exfalso.
      rewrite Cp in E. apply X1. rewrite E. apply Hlast. intro; subst l1. simpl in E. congruence.
    + apply chain_ext with (s := s); [|exact C2]. intros y Hy. split.
      * rewrite RN. destruct (Nat.eqb_spec y (prv s r)) as [E|E]; simpl.
        -- destruct (Nat.eqb_spec (prv s r) 0) as [E0|E0]; simpl.
           ++ rewrite eqb_false by (intro; subst; contradiction). reflexivity.
           ++ exfalso. rewrite Cp in E, E0. apply (X12 (last l1 0)); [apply Hlast; intro; subst l1; simpl in E0; congruence|rewrite <- E; exact Hy].
        -- rewrite eqb_false by (intro; subst; contradiction). reflexivity.
      * rewrite RP. rewrite eqb_false by (intro; subst; contradiction). rewrite eqb_false by (intro; subst; contradiction). reflexivity.
Qed.

Fixpoint ins_before (r o : nat) (l : list nat) : list nat :=
  match l with [] => [] | y :: t => if Nat.eqb y r then o :: y :: t else y :: ins_before r o t end.
Lemma ins_before_split : forall m1 r o m2, ~ In r m1 -> ins_before r o (m1 ++ r :: m2) = m1 ++ o :: r :: m2.
Proof.
  induction m1 as [|y m1 IH]; intros r o m2 H; simpl; [rewrite eqb_refl'; reflexivity|].
  rewrite eqb_false by (intro; subst; apply H; left; reflexivity). rewrite IH; [reflexivity|]. intro; apply H; right; assumption.
Qed.
Lemma ins_before_perm : forall l r o, In r l -> Permutation (o :: l) (ins_before r o l).
Proof.
  induction l as [|y l IH]; intros r o H; [contradiction|]. simpl. destruct (Nat.eqb_spec y r) as [->|E]; [reflexivity|].
  destruct H as [H|H]; [congruence|]. rewrite perm_swap. constructor. apply IH, H.
Qed.

(** Remove on a chunk that is not linked (what AddBefore does first with a fresh or just removed chunk) changes nothing *)
Lemma remove_detached : forall s l o, repr s l -> ~ In o l -> o <> 0 -> nxt s o = 0 -> prv s o = 0 ->
  repr (remove s o) l /\ isnl (remove s o) = isnl s /\ nlc (remove s o) = nlc s.
Proof.
  intros s l o (ND & N0 & Hh & Ht & C) Hn Ho En Ep.
  assert (A1 : nxt s o <> o) by congruence. assert (A2 : prv s o <> o) by congruence.
  destruct (remove_char s o Ho A1 A2) as (RN & RP & RH & RT).
  assert (Hisnl : isnl (remove s o) = isnl s /\ nlc (remove s o) = nlc s).
  { unfold remove. rewrite (eqb_false o 0 Ho).
    repeat match goal with |- context [if ?b then _ else _] => destruct b end; split; reflexivity. }
  split; [|exact Hisnl].
  unfold repr. repeat split; auto.
  - rewrite RH, Hh. rewrite eqb_false; [reflexivity|]. intro E. destruct l as [|z l']; simpl in E; [congruence|]. apply Hn. left. exact E.
  - rewrite RT, Ht. rewrite eqb_false; [reflexivity|]. intro E. destruct (list_eq_dec Nat.eq_dec l []) as [El|El]; [subst l; simpl in E; congruence|].
    apply Hn. rewrite <- E. apply last_in. exact El.
  - apply chain_ext with (s := s); [|exact C]. intros y Hy. rewrite RN, RP, En, Ep. simpl.
    rewrite eqb_false by (intro; subst; contradiction). rewrite !andb_false_r. split; reflexivity.
Qed.

Theorem add_before_abs : forall s l r o, repr s l -> In r l -> o <> 0 -> ~ In o l -> nxt s o = 0 -> prv s o = 0 ->
  repr (add_before s o r) (ins_before r o l) /\ isnl (add_before s o r) = isnl s /\ nlc (add_before s o r) = nlc s.
Proof.
  intros s l r o R Hr Ho Hn En Ep.
  assert (R0 : r <> 0) by (intro; subst; destruct R as (_ & N0 & _); contradiction).
  rewrite (add_before_link s o r Ho R0).
  destruct (remove_detached s l o R Hn Ho En Ep) as (R1 & I1 & C1).
  destruct (split_nodup l r (proj1 R) Hr) as (l1 & l2 & -> & A & B). rewrite ins_before_split by exact A.
  destruct (link_before_repr (remove s o) l1 r l2 o R1 Ho Hn) as (R2 & I2 & C2).
  split; [exact R2|]. split; congruence.
Qed.

(** ChunkListManager::Swap, first neighbour branch: obj2 stands directly in front of obj1 *)
Theorem swap_prev_abs : forall s l a b, repr s l -> In a l -> In b l -> a <> b -> prv s a = b ->
  repr (swap s a b) (ins_before b a (rem a l)) /\ Permutation l (ins_before b a (rem a l)).
Proof.
  intros s l a b R Ha Hb Hab Hp.
  assert (A0 : a <> 0) by (intro E; rewrite E in Ha; destruct R as (_ & N0 & _); contradiction).
  assert (B0 : b <> 0) by (intro E; rewrite E in Hb; destruct R as (_ & N0 & _); contradiction).
  unfold swap. rewrite (eqb_false a 0 A0), (eqb_false b 0 B0). cbn [orb]. rewrite Hp, eqb_refl'.
  destruct (remove_abs s l a R Ha) as (R1 & N1 & P1 & _).
  assert (Hb1 : In b (rem a l)) by (apply rem_in_other; auto).
  split.
  - apply add_before_abs; auto. apply rem_notin. exact (proj1 R).
  - rewrite (rem_perm l a Ha) at 1. apply ins_before_perm. exact Hb1.
Qed.

(** second neighbour branch: obj1 stands directly in front of obj2 *)
Theorem swap_next_abs : forall s l a b, repr s l -> In a l -> In b l -> a <> b -> prv s a <> b -> prv s b = a ->
  repr (swap s a b) (ins_before a b (rem b l)) /\ Permutation l (ins_before a b (rem b l)).
Proof.
  intros s l a b R Ha Hb Hab Hpa Hp.
  assert (A0 : a <> 0) by (intro E; rewrite E in Ha; destruct R as (_ & N0 & _); contradiction).
  assert (B0 : b <> 0) by (intro E; rewrite E in Hb; destruct R as (_ & N0 & _); contradiction).
  unfold swap. rewrite (eqb_false a 0 A0), (eqb_false b 0 B0). cbn [orb]. rewrite (eqb_false _ _ Hpa), Hp, eqb_refl'.
  destruct (remove_abs s l b R Hb) as (R1 & N1 & P1 & _).
  assert (Ha1 : In a (rem b l)) by (apply rem_in_other; auto).
  split.
  - apply add_before_abs; auto. apply rem_notin. exact (proj1 R).
  - rewrite (rem_perm l b Hb) at 1. apply ins_before_perm. exact Ha1.
Qed.

(** every branch of Swap inside its contract keeps every chunk *)
Theorem swap_permutes : forall s l a b, repr s l -> In a l -> In b l -> a <> b ->
  (prv s a = b \/ prv s b = a \/ (prv s a <> 0 /\ prv (remove s a) b <> 0)) ->
  exists l', repr (swap s a b) l' /\ Permutation l l'.
Proof.
  intros s l a b R Ha Hb Hab H.
  destruct (Nat.eq_dec (prv s a) b) as [E1|E1].
  { eexists. apply swap_prev_abs; assumption. }
  destruct (Nat.eq_dec (prv s b) a) as [E2|E2].
  { eexists. apply swap_next_abs; assumption. }
  destruct H as [H|[H|[H1 H2]]]; try contradiction.
  eexists. apply swap_far_abs; assumption.
Qed.

(* ---------------------------------------------------------------- sequences of MoveAfter and Swap *)
Definition okS (s : st) (l : list nat) (p : op) : Prop :=
  match p with
  | MoveAfter x r => In x l /\ In r l /\ x <> r
  | Swap a b => In a l /\ In b l /\ a <> b /\ (prv s a = b \/ prv s b = a \/ (prv s a <> 0 /\ prv (remove s a) b <> 0))
  | _ => False
  end.
Fixpoint safe (fuel : nat) (s : st) (ops : list op) : Prop :=
  match ops with
  | [] => True
  | p :: ps => (forall l, repr s l -> okS s l p) /\ safe fuel (step fuel s p) ps
  end.

(** every reachable state of the passes' reordering operations: whatever sequence of MoveAfter and Swap is applied, each inside its
    contract in the state it meets, the chunk list stays a well-formed doubly linked list holding exactly the chunks it held *)
Theorem reordering_keeps_every_chunk : forall fuel ops s l, repr s l -> safe fuel s ops ->
  exists l', repr (fold_left (step fuel) ops s) l' /\ Permutation l l'.
Proof.
  intros fuel ops. induction ops as [|p ps IH]; intros s l R H.
  - exists l. split; [exact R|reflexivity].
  - cbn [fold_left]. destruct H as [H1 H2]. specialize (H1 l R).
    assert (E : exists l1, repr (step fuel s p) l1 /\ Permutation l l1).
    { destruct p as [o r nl c|o r nl c|x|x r|a b|a b]; simpl in H1; try contradiction; simpl.
      - destruct H1 as (Hx & Hr & Hne). apply move_after_perm; assumption.
      - destruct H1 as (Ha & Hb & Hab & Hc). apply swap_permutes; assumption. }
    destruct E as (l1 & R1 & P1). destruct (IH _ l1 R1 H2) as (l' & R' & P'). exists l'. split; [exact R'|]. transitivity l1; assumption.
Qed.

Definition four : st := cl_run 5 [NewAfter 1 0 false 0; NewAfter 2 1 false 0; NewAfter 3 2 false 0; NewAfter 4 3 false 0].
Example reordering_example :
  to_list 5 (fold_left (step 5) [Swap 2 4; Swap 3 4; Swap 4 3; MoveAfter 1 4; Swap 2 1] four) = [4; 2; 3; 1].
Proof. vm_compute. reflexivity. Qed.

(* ---------------------------------------------------------------- AddHead / AddTail *)
Lemma last_default : forall (l : list nat) a b, l <> [] -> last l a = last l b.
Proof. induction l as [|x l IH]; intros a b H; [congruence|]. destruct l as [|y l']; [reflexivity|]. change (last (y :: l') a = last (y :: l') b). apply IH. discriminate. Qed.

Lemma add_head_char : forall s o, o <> 0 -> hd_ s <> o ->
  let s' := add_head s o in
  (forall y, nxt s' y = if Nat.eqb y o then hd_ s else nxt s y) /\
  (forall y, prv s' y = if Nat.eqb y (hd_ s) && negb (Nat.eqb (hd_ s) 0) then o else if Nat.eqb y o then 0 else prv s y) /\
  hd_ s' = o /\ tl_ s' = (if Nat.eqb (hd_ s) 0 then o else tl_ s) /\ isnl s' = isnl s /\ nlc s' = nlc s.
Proof.
  intros s o Ho Hn. unfold add_head. destruct s as [nx pv h t i c]. cbn [nxt prv hd_ tl_] in *.
  repeat split; try intros y; eqb_cases; cbn [nxt prv hd_ tl_ isnl nlc set_hd set_tl set_prv set_nxt] in *; unfold upd in *; eqb_all; subst; try reflexivity; try congruence; try lia.
Qed.

Theorem add_head_repr : forall s l o, repr s l -> o <> 0 -> ~ In o l ->
  repr (add_head s o) (o :: l) /\ isnl (add_head s o) = isnl s /\ nlc (add_head s o) = nlc s.
Proof.
  intros s l o (ND & N0 & Hh & Ht & C) Ho Hn.
  assert (Hho : hd_ s <> o). { rewrite Hh. destruct l as [|z l']; simpl; [congruence|]. intro; subst. apply Hn. left; reflexivity. }
  destruct (add_head_char s o Ho Hho) as (RN & RP & RH & RT & RI & RC).
  remember (add_head s o) as s' eqn:Es'. clear Es'.
  split; [|split; assumption].
  unfold repr. split; [constructor; assumption|]. split; [intros [E|E]; [congruence|contradiction]|].
  split; [exact RH|]. split.
  - rewrite RT, Hh. destruct l as [|z l'] eqn:El; [reflexivity|]. rewrite <- El in *.
    assert (Z : hd 0 l <> 0) by (subst l; simpl; intro; subst; apply N0; left; reflexivity).
    rewrite (eqb_false _ 0 Z). rewrite Ht, last_cons. apply last_default. subst; discriminate.
  - cbn [chain]. split; [rewrite RP, eqb_refl'; rewrite (eqb_false o (hd_ s)) by congruence; reflexivity|].
    split; [rewrite RN, eqb_refl'; exact Hh|].
    apply chain_set_first with (s := s) (p := 0).
    + exact C.
    + intros y Hy. rewrite RN. rewrite eqb_false by (intro; subst; contradiction). reflexivity.
    + intros y Hy. rewrite RP, Hh. destruct l as [|z l']; [contradiction|]. simpl in Hy. simpl hd.
      apply NoDup_cons_iff in ND. rewrite (eqb_false y z) by (intro; subst; tauto). simpl.
      rewrite eqb_false by (intro; subst; apply Hn; right; exact Hy). reflexivity.
    + intros Hl. rewrite RP, Hh, eqb_refl'. rewrite eqb_false; [reflexivity|]. intro E. apply N0. rewrite <- E. apply hd_in. exact Hl.
Qed.

Lemma add_tail_char : forall s o, o <> 0 -> tl_ s <> o ->
  let s' := add_tail s o in
  (forall y, nxt s' y = if Nat.eqb y (tl_ s) && negb (Nat.eqb (tl_ s) 0) then o else if Nat.eqb y o then 0 else nxt s y) /\
  (forall y, prv s' y = if Nat.eqb y o then tl_ s else prv s y) /\
  hd_ s' = (if Nat.eqb (tl_ s) 0 then o else hd_ s) /\ tl_ s' = o /\ isnl s' = isnl s /\ nlc s' = nlc s.
Proof.
  intros s o Ho Hn. unfold add_tail. destruct s as [nx pv h t i c]. cbn [nxt prv hd_ tl_] in *.
  repeat split; try intros y; eqb_cases; cbn [nxt prv hd_ tl_ isnl nlc set_hd set_tl set_prv set_nxt] in *; unfold upd in *; eqb_all; subst; try reflexivity; try congruence; try lia.
Qed.

Theorem add_tail_repr : forall s l o, repr s l -> o <> 0 -> ~ In o l ->
  repr (add_tail s o) (l ++ [o]) /\ isnl (add_tail s o) = isnl s /\ nlc (add_tail s o) = nlc s.
Proof.
  intros s l o (ND & N0 & Hh & Ht & C) Ho Hn.
  assert (Hlast : l <> [] -> In (last l 0) l) by (intro; apply last_in; assumption).
  assert (Hto : tl_ s <> o). { rewrite Ht. destruct (list_eq_dec Nat.eq_dec l []) as [El|El]; [subst; simpl; congruence|]. intro E. apply Hn. rewrite <- E. apply Hlast, El. }
  destruct (add_tail_char s o Ho Hto) as (RN & RP & RH & RT & RI & RC).
  remember (add_tail s o) as s' eqn:Es'. clear Es'.
  split; [|split; assumption].
  unfold repr. split.
  { apply nodup_insert; rewrite app_nil_r; assumption. }
  split; [intro H0; apply in_app_or in H0; destruct H0 as [H0|[H0|[]]]; [contradiction|congruence]|].
  split; [|split].
  - rewrite RH, Ht. destruct l as [|z l'] eqn:El; [reflexivity|]. rewrite <- El in *.
    assert (Z : last l 0 <> 0) by (intro E; apply N0; rewrite <- E; apply Hlast; subst; discriminate).
    rewrite (eqb_false _ 0 Z). rewrite Hh. subst; reflexivity.
  - rewrite RT. rewrite last_app_ne by discriminate. reflexivity.
  - apply chain_app. split.
    + simpl hd. apply chain_set_last with (s := s) (n := 0); auto.
      * intros y Hy. rewrite RP. rewrite eqb_false by (intro; subst; contradiction). reflexivity.
      * intros y Hy Hne. rewrite RN, Ht. rewrite (eqb_false y (last l 0) Hne). simpl. rewrite eqb_false by (intro; subst; contradiction). reflexivity.
      * intros Hl. rewrite RN, Ht, eqb_refl'. rewrite eqb_false; [reflexivity|]. intro E. apply N0. rewrite <- E. apply Hlast, Hl.
    + cbn [chain hd]. split; [rewrite RP, eqb_refl'; exact Ht|]. split; [|exact I].
      rewrite RN, eqb_refl'. rewrite (eqb_false o (tl_ s)) by congruence. reflexivity.
Qed.

(* ---------------------------------------------------------------- every reachable state, from the empty list *)
Lemma empty_repr : repr empty [].
Proof. unfold repr. repeat split; try reflexivity; [constructor|intros []]. Qed.

Lemma fresh_detached : forall s o nl c, nxt (fresh s o nl c) o = 0 /\ prv (fresh s o nl c) o = 0.
Proof. intros. unfold fresh. cbn [nxt prv set_prv set_nxt set_nlc set_isnl]. unfold upd. rewrite eqb_refl'. split; reflexivity. Qed.

Definition ok_op2 (l : list nat) (p : op) : Prop :=
  match p with
  | Delete x => In x l
  | MoveAfter x r => In x l /\ In r l /\ x <> r
  | NewAfter o r _ _ => (r = 0 \/ In r l) /\ o <> 0 /\ ~ In o l
  | NewBefore o r _ _ => (r = 0 \/ In r l) /\ o <> 0 /\ ~ In o l
  | _ => False
  end.
Definition abs_op2 (l : list nat) (p : op) : list nat :=
  match p with
  | Delete x => rem x l
  | MoveAfter x r => ins_after r x (rem x l)
  | NewAfter o r _ _ => if Nat.eqb r 0 then o :: l else ins_after r o l
  | NewBefore o r _ _ => if Nat.eqb r 0 then l ++ [o] else ins_before r o l
  | _ => l
  end.
Fixpoint oks2 (l : list nat) (ops : list op) : Prop :=
  match ops with [] => True | p :: ps => ok_op2 l p /\ oks2 (abs_op2 l p) ps end.

Lemma step_refines2 : forall fuel s l p, repr s l -> ok_op2 l p -> repr (step fuel s p) (abs_op2 l p).
Proof.
  intros fuel s l p R H.
  assert (N0 : ~ In 0 l) by (destruct R as (_ & N0 & _); exact N0).
  destruct p as [o r nl c|o r nl c|x|x r|a b|a b]; simpl in H; try contradiction; simpl.
  - destruct H as (Hr & Ho & Hn). destruct (Nat.eqb_spec r 0) as [E|E].
    + apply add_head_repr; auto. apply fresh_repr; assumption.
    + destruct Hr as [Hr|Hr]; [contradiction|]. apply add_after_abs; auto. apply fresh_repr; assumption.
  - destruct H as (Hr & Ho & Hn). destruct (Nat.eqb_spec r 0) as [E|E].
    + apply add_tail_repr; auto. apply fresh_repr; assumption.
    + destruct Hr as [Hr|Hr]; [contradiction|]. destruct (fresh_detached s o nl c) as [F1 F2].
      apply add_before_abs; auto. apply fresh_repr; assumption.
  - apply remove_abs; assumption.
  - destruct H as (Hx & Hr & Hne). apply move_after_abs; assumption.
Qed.

(** Every reachable state: starting from the EMPTY list, any sequence of Chunk::CopyAndAddAfter / CopyAndAddBefore (with a linked reference or
    the null chunk), Chunk::Delete and Chunk::MoveAfter on linked chunks leaves the heap exactly the abstract sequence computed by the list
    functions - well-linked in both directions, nothing lost, nothing duplicated. *)
Theorem list_from_empty : forall fuel ops, oks2 [] ops ->
  repr (cl_run fuel ops) (fold_left abs_op2 ops []).
Proof.
  intros fuel ops H. unfold cl_run. generalize empty_repr. generalize H. clear H. generalize empty. generalize (@nil nat).
  induction ops as [|p ps IH]; intros l s H R; [exact R|].
  cbn [fold_left]. destruct H as [H1 H2]. apply IH; [exact H2|apply step_refines2; assumption].
Qed.

Example list_from_empty_example :
  oks2 [] [NewAfter 1 0 false 0; NewBefore 2 0 true 1; NewBefore 3 2 false 0; NewAfter 4 1 false 0; MoveAfter 1 2; Delete 4]
  /\ fold_left abs_op2 [NewAfter 1 0 false 0; NewBefore 2 0 true 1; NewBefore 3 2 false 0; NewAfter 4 1 false 0; MoveAfter 1 2; Delete 4] [] = [3; 2; 1].
Proof. split; [vm_compute; intuition congruence|vm_compute; reflexivity]. Qed.

(* ---------------------------------------------------------------- SwapLines *)
Lemma nxt_in : forall s l x, repr s l -> In x l -> nxt s x = 0 \/ In (nxt s x) l.
Proof.
  intros s l x R H. destruct (split_nodup l x (proj1 R) H) as (l1 & l2 & -> & A & B).
  destruct R as (ND & N0 & Hh & Ht & C). apply chain_app in C. destruct C as [_ C]. cbn [chain] in C. destruct C as (_ & Cn & _).
  rewrite Cn. destruct l2 as [|z l2']; [left; reflexivity|]. right. apply in_or_app. right. right. left. reflexivity.
Qed.

Lemma first_go_in : forall fuel s l first pc, repr s l -> In first l -> (pc = 0 \/ In pc l) -> In (first_go fuel s first pc) l.
Proof.
  induction fuel as [|f IH]; intros s l first pc R Hf Hp; [exact Hf|].
  cbn [first_go]. destruct (Nat.eqb_spec pc 0) as [E|E]; [exact Hf|]. simpl.
  destruct (isnl s pc); [exact Hf|]. destruct Hp as [Hp|Hp]; [contradiction|].
  apply IH; auto. destruct (prv_in s l pc R Hp) as [E0|[E1 _]]; [left; exact E0|right; exact E1].
Qed.

Lemma first_on_line_in : forall fuel s l x, repr s l -> In x l -> In (first_on_line fuel s x) l.
Proof.
  intros fuel s l x R H. unfold first_on_line. apply first_go_in; auto.
  destruct (prv_in s l x R H) as [E0|[E1 _]]; [left; exact E0|right; exact E1].
Qed.

Lemma set_nlc_repr : forall s l k v, repr s l -> repr (set_nlc s k v) l.
Proof. intros s l k v (ND & N0 & Hh & Ht & C). unfold repr. repeat split; auto. apply chain_ext with (s := s); auto. Qed.

(** the conditions the two loops and the final Swap of Chunk::SwapLines rely on, evaluated along the very states the loops go through *)
Fixpoint loop1_guard (fuel : nat) (s : st) (pc1 pc2 : nat) : bool :=
  match fuel with
  | O => true
  | S f => if Nat.eqb pc2 0 || isnl s pc2 then true
           else negb (Nat.eqb pc2 pc1) && loop1_guard f (add_before (remove s pc2) pc2 pc1) pc1 (nxt s pc2)
  end.
Fixpoint loop2_guard (fuel : nat) (s : st) (pc1 ref2 : nat) : bool :=
  match fuel with
  | O => true
  | S f => if Nat.eqb pc1 0 || isnl s pc1 then true
           else negb (Nat.eqb pc1 ref2) &&
                loop2_guard f (let s1 := remove s pc1 in if Nat.eqb ref2 0 then add_head s1 pc1 else add_after s1 pc1 ref2) (nxt s pc1) pc1
  end.

Lemma loop1_perm : forall fuel s l pc1 pc2, repr s l -> In pc1 l -> (pc2 = 0 \/ In pc2 l) -> loop1_guard fuel s pc1 pc2 = true ->
  exists l', repr (fst (sl_loop1 fuel s pc1 pc2)) l' /\ Permutation l l' /\ (snd (sl_loop1 fuel s pc1 pc2) = 0 \/ In (snd (sl_loop1 fuel s pc1 pc2)) l').
Proof.
  induction fuel as [|f IH]; intros s l pc1 pc2 R H1 H2 G.
  - exists l. simpl. split; [exact R|split; [reflexivity|exact H2]].
  - cbn [sl_loop1 loop1_guard] in *. destruct (Nat.eqb pc2 0 || isnl s pc2) eqn:E.
    + exists l. simpl. split; [exact R|split; [reflexivity|exact H2]].
    + apply andb_true_iff in G. destruct G as [G1 G2]. apply negb_true_iff, Nat.eqb_neq in G1.
      apply orb_false_iff in E. destruct E as [E0 _]. apply Nat.eqb_neq in E0. destruct H2 as [H2|H2]; [contradiction|].
      destruct (remove_abs s l pc2 R H2) as (R1 & N1 & P1 & _).
      assert (Hin1 : In pc1 (rem pc2 l)) by (apply rem_in_other; auto).
      assert (Hn2 : ~ In pc2 (rem pc2 l)) by (apply rem_notin; exact (proj1 R)).
      destruct (add_before_abs _ _ pc1 pc2 R1 Hin1 E0 Hn2 N1 P1) as (R2 & _).
      assert (PM : Permutation l (ins_before pc1 pc2 (rem pc2 l))).
      { rewrite (rem_perm l pc2 H2) at 1. apply ins_before_perm. exact Hin1. }
      destruct (IH _ _ pc1 (nxt s pc2) R2) as (l' & R' & P' & S'); auto.
      * apply (Permutation_in _ PM). exact H1.
      * destruct (nxt_in s l pc2 R H2) as [Z|Z]; [left; exact Z|right; apply (Permutation_in _ PM); exact Z].
      * exists l'. split; [exact R'|]. split; [transitivity (ins_before pc1 pc2 (rem pc2 l)); assumption|exact S'].
Qed.

Lemma loop2_perm : forall fuel s l pc1 ref2, repr s l -> (pc1 = 0 \/ In pc1 l) -> (ref2 = 0 \/ In ref2 l) -> loop2_guard fuel s pc1 ref2 = true ->
  exists l', repr (fst (sl_loop2 fuel s pc1 ref2)) l' /\ Permutation l l' /\ (snd (sl_loop2 fuel s pc1 ref2) = 0 \/ In (snd (sl_loop2 fuel s pc1 ref2)) l').
Proof.
  induction fuel as [|f IH]; intros s l pc1 ref2 R H1 H2 G.
  - exists l. simpl. split; [exact R|split; [reflexivity|exact H1]].
  - cbn [sl_loop2 loop2_guard] in *. destruct (Nat.eqb pc1 0 || isnl s pc1) eqn:E.
    + exists l. simpl. split; [exact R|split; [reflexivity|exact H1]].
    + apply andb_true_iff in G. destruct G as [G1 G2]. apply negb_true_iff, Nat.eqb_neq in G1.
      apply orb_false_iff in E. destruct E as [E0 _]. apply Nat.eqb_neq in E0. destruct H1 as [H1|H1]; [contradiction|].
      destruct (remove_abs s l pc1 R H1) as (R1 & N1 & P1 & _).
      assert (Hn1 : ~ In pc1 (rem pc1 l)) by (apply rem_notin; exact (proj1 R)).
      assert (X : exists l2, repr (if Nat.eqb ref2 0 then add_head (remove s pc1) pc1 else add_after (remove s pc1) pc1 ref2) l2 /\ Permutation l l2).
      { destruct (Nat.eqb_spec ref2 0) as [Z|Z].
        - exists (pc1 :: rem pc1 l). split; [apply add_head_repr; auto|apply rem_perm; exact H1].
        - destruct H2 as [H2|H2]; [contradiction|]. assert (Hr : In ref2 (rem pc1 l)) by (apply rem_in_other; auto).
          exists (ins_after ref2 pc1 (rem pc1 l)). split; [apply add_after_abs; auto|].
          rewrite (rem_perm l pc1 H1) at 1. apply ins_perm. exact Hr. }
      destruct X as (l2 & R2 & PM).
      destruct (IH _ l2 (nxt s pc1) pc1 R2) as (l' & R' & P' & S'); auto.
      * destruct (nxt_in s l pc1 R H1) as [Z|Z]; [left; exact Z|right; apply (Permutation_in _ PM); exact Z].
      * right. apply (Permutation_in _ PM). exact H1.
      * exists l'. split; [exact R'|]. split; [transitivity l2; assumption|exact S'].
Qed.

Definition swap_guard (s : st) (a b : nat) : bool :=
  negb (Nat.eqb a b) && (Nat.eqb (prv s a) b || Nat.eqb (prv s b) a || (negb (Nat.eqb (prv s a) 0) && negb (Nat.eqb (prv (remove s a) b) 0))).

Definition swap_lines_guard (fuel : nat) (s : st) (a b : nat) : bool :=
  let pc1 := first_on_line fuel s a in
  let pc2 := first_on_line fuel s b in
  if Nat.eqb pc1 0 || Nat.eqb pc2 0 || Nat.eqb pc1 pc2 then true else
  loop1_guard fuel s pc1 pc2 &&
  (let '(s1, pc2') := sl_loop1 fuel s pc1 pc2 in
   loop2_guard fuel s1 pc1 (prv s pc2) &&
   (let '(s2, pc1') := sl_loop2 fuel s1 pc1 (prv s pc2) in
    if Nat.eqb pc1' 0 || Nat.eqb pc2' 0 then true
    else swap_guard (set_nlc (set_nlc s2 pc1' (nlc s2 pc2')) pc2' (nlc s2 pc1')) pc1' pc2')).

(** Chunk::SwapLines keeps every chunk whenever the conditions its loops and its final Swap rely on hold along the run (an executable
    hypothesis, evaluated on the same states; it fails exactly in runs like the refuted one below) *)
Theorem swap_lines_permutes : forall fuel s l a b, repr s l -> In a l -> In b l -> swap_lines_guard fuel s a b = true ->
  exists l', repr (swap_lines fuel s a b) l' /\ Permutation l l'.
Proof.
  intros fuel s l a b R Ha Hb G. unfold swap_lines, swap_lines_guard in *.
  pose proof (first_on_line_in fuel s l a R Ha) as I1. pose proof (first_on_line_in fuel s l b R Hb) as I2.
  set (pc1 := first_on_line fuel s a) in *. set (pc2 := first_on_line fuel s b) in *.
  destruct (Nat.eqb pc1 0 || Nat.eqb pc2 0 || Nat.eqb pc1 pc2) eqn:E0; [exists l; split; [exact R|reflexivity]|].
  apply andb_true_iff in G. destruct G as [G1 G].
  destruct (loop1_perm fuel s l pc1 pc2 R I1 (or_intror I2) G1) as (l1 & R1 & P1 & S1).
  destruct (sl_loop1 fuel s pc1 pc2) as [s1 pc2'] eqn:E1. cbn [fst snd] in *.
  apply andb_true_iff in G. destruct G as [G2 G].
  assert (Iref : prv s pc2 = 0 \/ In (prv s pc2) l1).
  { destruct (prv_in s l pc2 R I2) as [Z|[Z _]]; [left; exact Z|right; apply (Permutation_in _ P1); exact Z]. }
  destruct (loop2_perm fuel s1 l1 pc1 (prv s pc2) R1 (or_intror (Permutation_in _ P1 I1)) Iref G2) as (l2 & R2 & P2 & S2).
  destruct (sl_loop2 fuel s1 pc1 (prv s pc2)) as [s2 pc1'] eqn:E2. cbn [fst snd] in *.
  destruct (Nat.eqb pc1' 0 || Nat.eqb pc2' 0) eqn:E3.
  { exists l2. split; [exact R2|]. transitivity l1; assumption. }
  apply orb_false_iff in E3. destruct E3 as [Z1 Z2]. apply Nat.eqb_neq in Z1. apply Nat.eqb_neq in Z2.
  destruct S2 as [S2|S2]; [contradiction|]. destruct S1 as [S1|S1]; [contradiction|].
  set (s3 := set_nlc (set_nlc s2 pc1' (nlc s2 pc2')) pc2' (nlc s2 pc1')) in *.
  assert (R3 : repr s3 l2) by (unfold s3; apply set_nlc_repr, set_nlc_repr; exact R2).
  unfold swap_guard in G. apply andb_true_iff in G. destruct G as [Gn Gc]. apply negb_true_iff, Nat.eqb_neq in Gn.
  destruct (swap_permutes s3 l2 pc1' pc2' R3 S2 (Permutation_in _ P2 S1) Gn) as (l3 & R4 & P3).
  - apply orb_true_iff in Gc. destruct Gc as [Gc|Gc]; [apply orb_true_iff in Gc; destruct Gc as [Gc|Gc]; apply Nat.eqb_eq in Gc; auto|].
    apply andb_true_iff in Gc. destruct Gc as [Ga Gb]. apply negb_true_iff, Nat.eqb_neq in Ga. apply negb_true_iff, Nat.eqb_neq in Gb. auto.
  - exists l3. split; [exact R4|]. transitivity l1; [exact P1|]. transitivity l2; assumption.
Qed.

Definition two_lines : st := cl_run 6 [NewAfter 1 0 false 0; NewAfter 2 1 true 1; NewAfter 3 2 false 0; NewAfter 4 3 true 3].
Example swap_lines_example :
  swap_lines_guard 6 two_lines 1 3 = true /\ swap_lines_guard 6 two_lines 3 1 = true /\
  cl_observe 6 (swap_lines 6 two_lines 1 3) = ([(3, 0); (4, 1); (1, 0); (2, 3)], [2; 1; 4; 3]).
Proof. vm_compute. repeat split; reflexivity. Qed.

(** outside the hypothesis: the other chunk is the newline of a blank line and the first line opens the list - the final Swap meets the first
    chunk of the list and a chunk is lost (replayed on the real code through the hook) *)
Definition blank_second : st := cl_run 5 [NewAfter 1 0 false 0; NewAfter 2 1 true 1; NewAfter 3 2 true 2].
Theorem swap_lines_blank_line_refuted :
  swap_lines_guard 5 blank_second 1 3 = false /\ to_list 5 (swap_lines 5 blank_second 1 3) = [1; 2].
Proof. vm_compute. split; reflexivity. Qed.
