(** The line-break structure of the output (C20): the stream of events "line break" / "visible character" the
    writer produces is the concatenation of the chunks' contributions - a NEWLINE chunk gives nl_count breaks, a text
    chunk its visible characters, nothing else gives a break - and a chunk list accepted by the checker K_nlmax
    (Model/NlMax.v) is therefore written without any run of more than N line breaks. *)
From Coq Require Import List ZArith Bool Arith Lia.
From UV Require Import Model.Render Model.NlMax Proofs.RenderProofs.
Import ListNotations.
Local Open Scope Z_scope.

(** events of a symbol: true = line break, false = visible character; blanks and tabs are no events;
    a comment (segment) and a raw code point of a disabled region count as visible *)
Definition blankc (c : Z) : bool := (c =? 32) || (c =? 9).
Definition bv (x : sym) : list bool :=
  match x with
  | NL => [true]
  | Ch c => if blankc c then [] else [false]
  | Raw _ => [false]
  | Seg _ => [false]
  end.
Definition bvw (o : list sym) : list bool := flat_map bv (rev o).

(** events of a code point handed to add_char (CR excluded by the statements below) *)
Definition cv (c : Z) : list bool := if c =? 10 then [true] else if blankc c then [] else [false].

Lemma bvw_app a b : bvw (a ++ b) = bvw b ++ bvw a.
Proof. unfold bvw. rewrite rev_app_distr, flat_map_app. reflexivity. Qed.

Definition nocr (s : wstate) : Prop := last_char s <> 13.

(** [extb w s s']: [s'] extends the output of [s] by symbols whose events are [w], and no CR is pending *)
Definition extb (w : list bool) (s s' : wstate) : Prop :=
  (exists l, out s' = l ++ out s /\ bvw l = w) /\ nocr s'.

Lemma extb_refl s : nocr s -> extb [] s s.
Proof. intros H. split; [exists []; split; reflexivity|exact H]. Qed.

Lemma extb_trans w1 w2 s1 s2 s3 : extb w1 s1 s2 -> extb w2 s2 s3 -> extb (w1 ++ w2) s1 s3.
Proof.
  intros [(l1 & E1 & F1) _] [(l2 & E2 & F2) H3]. split; [|exact H3]. exists (l2 ++ l1). split.
  - rewrite E2, E1, app_assoc. reflexivity.
  - rewrite bvw_app, F1, F2. reflexivity.
Qed.

Lemma extb_same s s' : out s' = out s -> nocr s' -> extb [] s s'.
Proof. intros E H. split; [exists []; split; [exact E|reflexivity]|exact H]. Qed.

Lemma extb_nil_trans s1 s2 s3 w : extb [] s1 s2 -> extb w s2 s3 -> extb w s1 s3.
Proof. intros A B. exact (extb_trans [] w s1 s2 s3 A B). Qed.

Lemma extb_trans_nil s1 s2 s3 w : extb w s1 s2 -> extb [] s2 s3 -> extb w s1 s3.
Proof. intros A B. pose proof (extb_trans w [] s1 s2 s3 A B) as H. rewrite app_nil_r in H. exact H. Qed.

Lemma bvw_spaces n : bvw (repeat (Ch 32) n) = [].
Proof.
  unfold bvw. induction n as [|n IH]; [reflexivity|]. cbn [repeat rev]. rewrite flat_map_app, IH. reflexivity.
Qed.

Section Breaks.
  Variable o : ropts.

  Lemma b_add_spaces s : nocr s -> extb [] s (add_spaces s).
  Proof. intros H. split; [exists (repeat (Ch 32) (Z.to_nat (spaces s))); split; [reflexivity|apply bvw_spaces]|exact H]. Qed.

  Lemma cr_fixup_id s ch : nocr s -> cr_fixup s ch = s.
  Proof.
    intros H. unfold cr_fixup. replace (last_char s =? 13) with false by (symmetry; apply Z.eqb_neq; exact H). reflexivity.
  Qed.

  Lemma b_add_char1 s ch : nocr s -> ch <> 13 -> extb (cv ch) s (add_char1 o s ch).
  Proof.
    intros H H13. unfold add_char1. rewrite (cr_fixup_id s ch H).
    destruct (ch =? 10) eqn:E10.
    - apply Z.eqb_eq in E10. subst ch. eapply extb_nil_trans; [apply (b_add_spaces s H)|].
      split; [exists [NL]; split; reflexivity|]. unfold nocr. cbn. discriminate.
    - replace (ch =? 13) with false by (symmetry; apply Z.eqb_neq; exact H13).
      destruct ((ch =? 32) && negb (trailspace s)) eqn:E32.
      { apply andb_prop in E32. destruct E32 as [E32 _]. apply Z.eqb_eq in E32. subst ch.
        apply extb_same; [reflexivity|]. unfold nocr. cbn. discriminate. }
      eapply extb_nil_trans; [apply (b_add_spaces s H)|].
      split; [|unfold nocr; cbn; exact H13].
      exists [Ch ch]. split; [reflexivity|]. unfold bvw, cv. cbn. rewrite E10, app_nil_r. reflexivity.
  Qed.

  Lemma b_space_n n : forall s, nocr s -> extb [] s (space_n o s n).
  Proof.
    unfold space_n. induction n as [|n IH]; intros s H; cbn [repeat fold_left]; [apply extb_refl; exact H|].
    pose proof (b_add_char1 s 32 H ltac:(discriminate)) as A. change (cv 32) with (@nil bool) in A.
    eapply extb_nil_trans; [exact A|apply IH; exact (proj2 A)].
  Qed.

  Lemma b_add_char s ch lit : nocr s -> ch <> 13 -> extb (cv ch) s (add_char o s ch lit).
  Proof.
    intros H H13. unfold add_char.
    destruct ((ch =? 10) || (ch =? 13)); [apply b_add_char1; assumption|].
    destruct ((ch =? 9) && tab_as_space s) eqn:E9.
    { apply andb_prop in E9. destruct E9 as [E9 _]. apply Z.eqb_eq in E9. subst ch.
      rewrite (cr_fixup_id s 9 H). change (cv 9) with (@nil bool). apply b_space_n. exact H. }
    destruct (negb lit && (ch =? 9) && (last_char s =? 32) && (eff_iwt o =? 0)) eqn:E.
    { apply andb_prop in E. destruct E as [E _]. apply andb_prop in E. destruct E as [E _].
      apply andb_prop in E. destruct E as [_ E]. apply Z.eqb_eq in E. subst ch.
      change (cv 9) with (@nil bool). apply b_space_n. exact H. }
    apply b_add_char1; assumption.
  Qed.

  Lemma b_add_text t lit : Forall (fun c => c <> 13) t -> forall s, nocr s -> extb (flat_map cv t) s (add_text o s t lit).
  Proof.
    unfold add_text. induction t as [|c t IH]; intros Ht s H; cbn [fold_left flat_map]; [apply extb_refl; exact H|].
    inversion Ht as [|? ? Hc Ht']; subst.
    pose proof (b_add_char s c lit H Hc) as A.
    eapply extb_trans; [exact A|apply IH; [exact Ht'|exact (proj2 A)]].
  Qed.

  Definition rawv (t : list Z) : list bool := map (fun _ => false) (filter (fun c => 0 <=? c) t).

  Lemma b_add_raw t : forall s, nocr s -> extb (rawv t) s (add_raw s t).
  Proof.
    unfold add_raw, rawv. induction t as [|c t IH]; intros s H; cbn [fold_left filter map]; [apply extb_refl; exact H|].
    destruct (c <? 0) eqn:E.
    - replace (0 <=? c) with false by (symmetry; apply Z.leb_gt; apply Z.ltb_lt; exact E). apply IH. exact H.
    - replace (0 <=? c) with true by (symmetry; apply Z.leb_le; apply Z.ltb_ge; exact E). cbn [map].
      change (false :: map (fun _ : Z => false) (filter (fun c0 => 0 <=? c0) t))
        with ([false] ++ map (fun _ : Z => false) (filter (fun c0 => 0 <=? c0) t)).
      eapply extb_trans; [|apply IH; exact H].
      split; [exists [Raw c]; split; reflexivity|exact H].
  Qed.

  Lemma b_tabs_loop fuel : forall s col, nocr s -> extb [] s (tabs_loop o fuel s col).
  Proof.
    induction fuel as [|f IH]; intros s col H; cbn [tabs_loop]; [apply extb_refl; exact H|].
    destruct (next_tab_column o (column s) <=? col); [|apply extb_refl; exact H].
    pose proof (b_add_char s 9 false H ltac:(discriminate)) as A. change (cv 9) with (@nil bool) in A.
    eapply extb_nil_trans; [exact A|apply IH; exact (proj2 A)].
  Qed.

  Lemma b_output_to_column s col allow : nocr s -> extb [] s (output_to_column o s col allow).
  Proof.
    intros H. unfold output_to_column.
    assert (A : extb [] s (set_did_newline s false)) by (apply extb_same; [reflexivity|exact H]).
    eapply extb_nil_trans; [exact A|].
    destruct allow; [|apply b_space_n; exact H].
    pose proof (b_tabs_loop (Z.to_nat col + 1) (set_did_newline s false) col H) as B.
    eapply extb_nil_trans; [exact B|apply b_space_n; exact (proj2 B)].
  Qed.

  Lemma b_newline_loop n : forall first c s, nocr s -> extb (repeat true n) s (newline_loop o n first c s).
  Proof.
    induction n as [|n IH]; intros first c s H; cbn [newline_loop repeat]; [apply extb_refl; exact H|].
    change (true :: repeat true n) with ([true] ++ repeat true n).
    match goal with |- extb _ _ (newline_loop o n false c (add_char o ?s1 10 false)) => set (sx := s1) end.
    assert (A : extb [] s sx).
    { unfold sx. destruct (negb first && (1 <? nl_col c)); [apply b_output_to_column; exact H|apply extb_refl; exact H]. }
    pose proof (b_add_char sx 10 false (proj2 A) ltac:(discriminate)) as B. change (cv 10) with [true] in B.
    eapply extb_trans; [eapply extb_nil_trans; [exact A|exact B]|apply IH; exact (proj2 B)].
  Qed.

  (** what a chunk contributes to the event stream *)
  Definition bcontrib (c : chunk) : list bool :=
    match ck c with
    | CKSkipped => []
    | CKNewline => repeat true (Z.to_nat (nl_count c))
    | CKNlCont => [false; true]
    | CKComment => [false]
    | CKIgnored => rawv (text c)
    | CKOther => flat_map cv (text c)
    end.

  (** no CR in the texts, no CR left pending by a comment *)
  Definition crfree (c : chunk) : Prop :=
    match ck c with
    | CKOther => Forall (fun x => x <> 13) (text c)
    | CKComment => seg_last c <> 13
    | _ => True
    end.

  Lemma b_render_nlcont rp c s : nocr s -> extb [false; true] s (render_nlcont o rp c s).
  Proof.
    intros H. unfold render_nlcont.
    match goal with |- extb _ _ (after_newline (add_char o (add_char o (output_to_column o s ?cv ?al) 92 false) 10 false)) =>
      set (colv := cv); set (allow := al) end.
    pose proof (b_output_to_column s colv allow H) as A.
    pose proof (b_add_char _ 92 false (proj2 A) ltac:(discriminate)) as B. change (cv 92) with [false] in B.
    pose proof (b_add_char _ 10 false (proj2 B) ltac:(discriminate)) as C. change (cv 10) with [true] in C.
    eapply extb_trans_nil; [|apply extb_same; [reflexivity|exact (proj2 C)]].
    eapply extb_nil_trans; [exact A|].
    change [false; true] with ([false] ++ [true]). eapply extb_trans; [exact B|exact C].
  Qed.

  Lemma b_render_other prev c s : nocr s -> Forall (fun x => x <> 13) (text c) ->
    extb (flat_map cv (text c)) s (render_other o prev c s).
  Proof.
    intros H Ht. unfold render_other.
    set (s0 := set_flags s (is_string_multi c) false).
    match goal with |- extb _ _ (let '(s1, allow) := ?X in _) => destruct X as [s1 allow] eqn:EX end.
    assert (H1 : extb [] s s1).
    { destruct (did_newline s0).
      - injection EX as <- _.
        destruct ((preproc c && (ppiwt o =? 1)) || (negb (preproc c) && (indent_with_tabs o =? 1))).
        + match goal with |- extb _ _ (if ?b then _ else _) => destruct b end.
          * eapply extb_nil_trans; [apply (extb_same s s0); [reflexivity|exact H]|apply b_output_to_column; exact H].
          * apply extb_same; [reflexivity|exact H].
        + apply extb_same; [reflexivity|exact H].
      - injection EX as <- _. apply extb_same; [reflexivity|exact H]. }
    pose proof (b_output_to_column s1 (col c) allow (proj2 H1)) as A.
    pose proof (b_add_text (text c) (is_string c) Ht _ (proj2 A)) as B.
    destruct (is_pp_define c && force_tab_after_define o).
    - pose proof (b_add_char _ 9 false (proj2 B) ltac:(discriminate)) as C. change (cv 9) with (@nil bool) in C.
      eapply extb_trans_nil; [|apply extb_same; [reflexivity|exact (proj2 C)]].
      eapply extb_nil_trans; [exact H1|]. eapply extb_nil_trans; [exact A|].
      eapply extb_trans_nil; [exact B|exact C].
    - eapply extb_trans_nil; [|apply extb_same; [reflexivity|exact (proj2 B)]].
      eapply extb_nil_trans; [exact H1|]. eapply extb_nil_trans; [exact A|exact B].
  Qed.

  Lemma b_render_chunk rp c s : nocr s -> crfree c -> extb (bcontrib c) s (render_chunk o rp c s).
  Proof.
    intros H Hc. unfold render_chunk, bcontrib. unfold crfree in Hc.
    assert (F : extb [] s (set_flags s (trailspace s) false)) by (apply extb_same; [reflexivity|exact H]).
    destruct (ck c).
    - pose proof (b_newline_loop (Z.to_nat (nl_count c)) true c _ (proj2 F)) as A.
      eapply extb_trans_nil; [|apply extb_same; [reflexivity|exact (proj2 A)]].
      eapply extb_nil_trans; [exact F|exact A].
    - eapply extb_nil_trans; [exact F|apply b_render_nlcont; exact (proj2 F)].
    - split; [exists [Seg (seg c)]; split; reflexivity|exact Hc].
    - eapply extb_nil_trans; [exact F|apply b_add_raw; exact (proj2 F)].
    - destruct (text c) eqn:Et.
      + apply extb_same; [reflexivity|exact H].
      + rewrite <- Et. eapply extb_nil_trans; [exact F|apply b_render_other; [exact (proj2 F)|rewrite Et; exact Hc]].
    - apply extb_refl. exact H.
  Qed.

  Lemma b_render_loop l : Forall crfree l -> forall rp s, nocr s -> extb (flat_map bcontrib l) s (render_loop o rp l s).
  Proof.
    induction l as [|c l IH]; intros Hl rp s H; cbn [render_loop flat_map]; [apply extb_refl; exact H|].
    inversion Hl as [|? ? Hc Hl']; subst.
    pose proof (b_render_chunk rp c s H Hc) as A.
    eapply extb_trans; [exact A|apply IH; [exact Hl'|exact (proj2 A)]].
  Qed.

  (** Theorem: the event stream of the output is the concatenation of the chunks' contributions *)
  Theorem render_breaks last sp l : last <> 13 -> Forall crfree l ->
    flat_map bv (render o last sp l) = flat_map bcontrib l.
  Proof.
    intros Hl Hc. unfold render.
    destruct (b_render_loop l Hc [] (init_wstate last sp) Hl) as [(new & E & W) _].
    rewrite E. cbn [init_wstate out]. rewrite app_nil_r. exact W.
  Qed.
End Breaks.

(** ** runs of line breaks *)
Local Open Scope nat_scope.

Fixpoint end_run (r : nat) (w : list bool) : nat :=
  match w with
  | [] => r
  | true :: w' => end_run (S r) w'
  | false :: w' => end_run 0 w'
  end.

Lemma run_ok_app N : forall a b r, run_ok N r (a ++ b) = run_ok N r a && run_ok N (end_run r a) b.
Proof.
  induction a as [|x a IH]; intros b r; cbn [app run_ok end_run]; [reflexivity|].
  destruct x; [rewrite IH, andb_assoc; reflexivity|apply IH].
Qed.

Lemma run_ok_repeat N : forall k r, run_ok N r (repeat true k) = (k =? 0) || (r + k <=? N).
Proof.
  induction k as [|k IH]; intros r; cbn [repeat run_ok]; [reflexivity|].
  rewrite IH. cbn [Nat.eqb orb]. apply Bool.eq_true_iff_eq.
  rewrite andb_true_iff, orb_true_iff, !Nat.leb_le, Nat.eqb_eq. lia.
Qed.

Lemma end_run_repeat : forall k r, end_run r (repeat true k) = r + k.
Proof. induction k as [|k IH]; intros r; cbn [repeat end_run]; [lia|]. rewrite IH. lia. Qed.

Lemma run_quiet N : forall w r, Forall (fun b => b = false) w -> w <> [] -> run_ok N r w = true /\ end_run r w = 0.
Proof.
  induction w as [|x w IH]; intros r Hw Hn; [contradiction|].
  inversion Hw as [|? ? Hx Hw']; subst. cbn [run_ok end_run].
  destruct w as [|y w]; [split; reflexivity|]. apply IH; [exact Hw'|discriminate].
Qed.

(** the readable reading of [run_ok]: no N+1 line breaks in a row *)
Lemma run_ok_prefix N : forall k b r, run_ok N r (repeat true k ++ b) = true -> k = 0 \/ r + k <= N.
Proof.
  intros k b r H. rewrite run_ok_app, run_ok_repeat in H. apply andb_prop in H. destruct H as [H _].
  apply orb_prop in H. destruct H as [H|H]; [left; apply Nat.eqb_eq; exact H|right; apply Nat.leb_le; exact H].
Qed.

Theorem run_ok_no_long_run N : forall w r, run_ok N r w = true ->
  forall a b k, w = a ++ repeat true k ++ b -> k <= N.
Proof.
  induction w as [|x w IH]; intros r H a b k E.
  - destruct a; [|discriminate]. destruct k; [lia|discriminate].
  - destruct a as [|y a].
    + cbn [app] in E. rewrite E in H. destruct (run_ok_prefix N k b r H); lia.
    + injection E as -> E. destruct y; cbn [run_ok] in H.
      * apply andb_prop in H. destruct H as [_ H]. exact (IH _ H a b k E).
      * exact (IH _ H a b k E).
Qed.

(** ** soundness of the checker K_nlmax on chunk lists inside the scope of the property *)
Lemma vis_events t : forallb nobrk t = true -> Forall (fun b => b = false) (flat_map cv t).
Proof.
  induction t as [|c t IH]; intros H; cbn [flat_map forallb] in *; [constructor|].
  apply andb_prop in H. destruct H as [Hc Ht]. apply Forall_app. split; [|apply IH; exact Ht].
  unfold nobrk in Hc. apply negb_true_iff in Hc. apply orb_false_iff in Hc. destruct Hc as [H10 _].
  unfold cv. rewrite H10. destruct (blankc c); repeat constructor.
Qed.

Lemma vis_nonempty t : forallb nobrk t = true -> existsb vis t = true -> flat_map cv t <> [].
Proof.
  induction t as [|c t IH]; intros Hn Hv; cbn [flat_map forallb existsb] in *; [discriminate|].
  apply andb_prop in Hn. destruct Hn as [Hc Ht]. apply orb_prop in Hv. destruct Hv as [Hv|Hv].
  - unfold nobrk in Hc. apply negb_true_iff in Hc. apply orb_false_iff in Hc. destruct Hc as [H10 _].
    unfold vis in Hv. apply negb_true_iff in Hv. unfold cv, blankc. rewrite H10, Hv. discriminate.
  - intros E. apply app_eq_nil in E. destruct E as [_ E]. exact (IH Ht Hv E).
Qed.

Lemma nobrk_crfree t : forallb nobrk t = true -> Forall (fun x => x <> 13%Z) t.
Proof.
  induction t as [|c t IH]; intros H; cbn [forallb] in H; [constructor|].
  apply andb_prop in H. destruct H as [Hc Ht]. constructor; [|apply IH; exact Ht].
  unfold nobrk in Hc. apply negb_true_iff in Hc. apply orb_false_iff in Hc. destruct Hc as [_ H13].
  apply Z.eqb_neq. exact H13.
Qed.

Definition not_ign (c : option chunk) : Prop := is_ign c = false.

Lemma in_scope_not_ign c : in_scope c = true -> not_ign (Some c).
Proof. unfold in_scope, not_ign, is_ign. destruct (ck c); intros H; try reflexivity; discriminate. Qed.

Lemma scope_sound N : forall l prev r, forallb in_scope l = true -> not_ign prev ->
  runs_ok N r (classify_list prev l) = true -> run_ok N r (flat_map bcontrib l) = true.
Proof.
  induction l as [|c l IH]; intros prev r Hs Hp H; cbn [flat_map classify_list forallb] in *; [reflexivity|].
  apply andb_prop in Hs. destruct Hs as [Hc Hl].
  assert (Hn : not_ign (hd_error l)).
  { destruct l as [|d l']; [reflexivity|]. cbn [forallb] in Hl. apply andb_prop in Hl. apply in_scope_not_ign. exact (proj1 Hl). }
  pose proof (in_scope_not_ign c Hc) as Hcn.
  rewrite run_ok_app. unfold classify in H. unfold bcontrib. unfold in_scope in Hc.
  destruct (ck c) eqn:Ek.
  - (* NEWLINE *)
    apply negb_true_iff in Hc. rewrite Hc, Hp, Hn in H. cbn [orb runs_ok] in H.
    apply andb_prop in H. destruct H as [H1 H2].
    rewrite run_ok_repeat, H1, end_run_repeat. cbn [andb]. exact (IH _ _ Hl Hcn H2).
  - discriminate.
  - (* comment *)
    cbn [runs_ok] in H. cbn [run_ok end_run andb]. exact (IH _ _ Hl Hcn H).
  - discriminate.
  - (* text *)
    destruct (text c) as [|x t] eqn:Et.
    + cbn [runs_ok flat_map run_ok end_run andb] in *. exact (IH _ _ Hl Hcn H).
    + cbn [runs_ok] in H. apply andb_prop in Hc. destruct Hc as [Hb Hv].
      destruct (run_quiet N (flat_map cv (x :: t)) r (vis_events _ Hb) (vis_nonempty _ Hb Hv)) as [A B].
      rewrite A, B. cbn [andb]. exact (IH _ _ Hl Hcn H).
  - (* skipped *)
    cbn [runs_ok run_ok end_run andb] in *. exact (IH _ _ Hl Hcn H).
Qed.

Lemma in_scope_crfree l : forallb in_scope l = true -> Forall crfree l.
Proof.
  induction l as [|c l IH]; intros H; cbn [forallb] in H; [constructor|].
  apply andb_prop in H. destruct H as [Hc Hl]. constructor; [|apply IH; exact Hl].
  unfold in_scope in Hc. unfold crfree. destruct (ck c); try exact I.
  - apply negb_true_iff in Hc. apply Z.eqb_neq. exact Hc.
  - destruct (text c) as [|x t]; [constructor|]. apply andb_prop in Hc. apply nobrk_crfree. exact (proj1 Hc).
Qed.

(** Theorem: a chunk list inside the scope of the property that the checker accepts is written without a run of more
    than N line breaks *)
Theorem nlmax_sound o N last sp l :
  last <> 13%Z -> forallb in_scope l = true -> nlmax_ok N l = true ->
  forall a b k, flat_map bv (render o last sp l) = a ++ repeat true k ++ b -> k <= N.
Proof.
  intros Hl Hs Hk a b k E.
  rewrite (render_breaks o last sp l Hl (in_scope_crfree l Hs)) in E.
  apply (run_ok_no_long_run N (flat_map bcontrib l) 0) with (a := a) (b := b); [|exact E].
  apply (scope_sound N l None 0 Hs); [reflexivity|exact Hk].
Qed.

(** ** the ends of the file: the line breaks that open and close the output are the nl_count of the first / last
    NEWLINE chunk (what newlines_eat_start_end() sets from nl_start_of_file / nl_end_of_file and their minima) *)
Theorem file_end_breaks o last sp l c :
  last <> 13%Z -> Forall (crfree) (l ++ [c]) -> ck c = CKNewline ->
  flat_map bv (render o last sp (l ++ [c])) = flat_map bcontrib l ++ repeat true (Z.to_nat (nl_count c)).
Proof.
  intros Hl Hc Hk. rewrite (render_breaks o last sp (l ++ [c]) Hl Hc), flat_map_app. cbn [flat_map].
  rewrite app_nil_r. unfold bcontrib at 2. rewrite Hk. reflexivity.
Qed.

Theorem file_start_breaks o last sp l c :
  last <> 13%Z -> Forall (crfree) (c :: l) -> ck c = CKNewline ->
  flat_map bv (render o last sp (c :: l)) = repeat true (Z.to_nat (nl_count c)) ++ flat_map bcontrib l.
Proof.
  intros Hl Hc Hk. rewrite (render_breaks o last sp (c :: l) Hl Hc). cbn [flat_map].
  unfold bcontrib at 1. rewrite Hk. reflexivity.
Qed.
