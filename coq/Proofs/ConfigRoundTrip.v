(** C15: what --update-config writes, the loader reads back to the same settings. *)
From Coq Require Import List ZArith Bool Arith Lia.
From UV Require Import Model.ConfigDefs Model.Config Proofs.ConfigProofs.
Import ListNotations.
Local Open Scope Z_scope.
Ltac Zify.zify_post_hook ::= Z.div_mod_to_equations.

Lemma beqb_refl a : beqb a a = true.
Proof. induction a; cbn; [reflexivity|]. rewrite Z.eqb_refl. exact IHa. Qed.

Lemma beqb_eq a : forall b, beqb a b = true <-> a = b.
Proof.
  induction a as [|x a IH]; intros [|y b]; cbn; split; intros H; try reflexivity; try discriminate.
  - apply andb_prop in H as [H1 H2]. apply Z.eqb_eq in H1. apply IH in H2. subst. reflexivity.
  - injection H as -> ->. rewrite Z.eqb_refl. cbn. apply beqb_refl.
Qed.

(** ** split_args on the lines the writer produces *)
Definition plain (c : Z) : bool := negb (is_arg_sep c) && negb (c =? 92).
Definition startok (c : Z) : bool := plain c && negb (c =? 35) && negb (is_quote c).

Lemma split_word_run w : forall acc args r,
  forallb plain w = true ->
  split (SWord acc) args (w ++ r) = split (SWord (rev w ++ acc)) args r.
Proof.
  induction w as [|c w IH]; intros acc args r H; [reflexivity|].
  cbn [forallb] in H. apply andb_prop in H as [Hc Hw].
  unfold plain in Hc. apply andb_prop in Hc as [H1 H2].
  apply negb_true_iff in H1, H2.
  cbn [app split]. rewrite H1, H2. rewrite IH by exact Hw.
  cbn [rev]. rewrite <- app_assoc. reflexivity.
Qed.

Lemma split_skip_seps seps : forall args r,
  forallb is_arg_sep seps = true -> split SSkip args (seps ++ r) = split SSkip args r.
Proof.
  induction seps as [|c s IH]; intros args r H; [reflexivity|].
  cbn [forallb] in H. apply andb_prop in H as [Hc Hs].
  cbn [app split]. rewrite Hc. apply IH. exact Hs.
Qed.

Lemma split_start_word c w args r :
  startok c = true ->
  split SSkip args (c :: w ++ r) = split (SWord [c]) args (w ++ r).
Proof.
  unfold startok, plain. intros H.
  apply andb_prop in H as [H H3]. apply andb_prop in H as [H H2]. apply andb_prop in H as [H0 H1].
  apply negb_true_iff in H0, H1, H2, H3.
  cbn [split]. rewrite H0, H2, H3, H1. reflexivity.
Qed.

Definition word_ok (w : bytes) : bool :=
  match w with c :: r => startok c && forallb plain r | [] => false end.

(** a word followed by a separator run and the rest *)
Lemma split_word_then w s0 seps args r :
  word_ok w = true -> is_arg_sep s0 = true -> forallb is_arg_sep seps = true ->
  split SSkip args (w ++ s0 :: seps ++ r) = split SSkip (w :: args) r.
Proof.
  destruct w as [|c w]; [discriminate|]. cbn [word_ok]. intros H Hs0 Hs.
  apply andb_prop in H as [Hc Hw].
  cbn [app]. rewrite split_start_word by exact Hc.
  rewrite split_word_run by exact Hw.
  cbn [split]. rewrite Hs0. rewrite split_skip_seps by exact Hs.
  cbn [rev]. rewrite rev_app_distr, rev_involutive. reflexivity.
Qed.

Lemma split_last_word w args :
  word_ok w = true -> split SSkip args w = SOk (rev (w :: args)).
Proof.
  destruct w as [|c w]; [discriminate|]. cbn [word_ok]. intros H.
  apply andb_prop in H as [Hc Hw].
  pose proof (split_start_word c w args [] Hc) as E1. rewrite app_nil_r in E1. rewrite E1.
  pose proof (split_word_run w [c] args [] Hw) as E2. rewrite app_nil_r in E2. rewrite E2.
  cbn [split rev]. rewrite rev_app_distr, rev_involutive. reflexivity.
Qed.

(** quoted string with the writer's escaping *)
Lemma split_quoted v : forall acc args r,
  split (SQuote 34 acc) args (escape v ++ 34 :: r) = split SAfterQ (rev (rev v ++ acc) :: args) r.
Proof.
  induction v as [|c v IH]; intros acc args r.
  - cbn [escape app split]. rewrite Z.eqb_refl. reflexivity.
  - cbn [escape]. destruct ((c =? 92) || (c =? 34)) eqn:E.
    + cbn [app split]. change (92 =? 34) with false. cbn [Z.eqb].
      rewrite IH. cbn [rev]. rewrite <- app_assoc. reflexivity.
    + apply orb_false_elim in E as [E1 E2].
      cbn [app split]. rewrite E2, E1. rewrite IH. cbn [rev]. rewrite <- app_assoc. reflexivity.
Qed.

Lemma split_last_quoted v args :
  split SSkip args (34 :: escape v ++ [34]) = SOk (rev (v :: args)).
Proof.
  cbn [split]. change (is_arg_sep 34) with false. change (34 =? 35) with false.
  change (is_quote 34) with true. cbn iota.
  rewrite split_quoted. cbn [split]. rewrite app_nil_r, rev_involutive. reflexivity.
Qed.

Lemma forallb_spaces n : forallb is_arg_sep (spaces n) = true.
Proof. induction n; cbn; [reflexivity|exact IHn]. Qed.

(** the argument the loader will see for a value *)
Definition arg_of (iarf_names lineend_names tokenpos_names : list (Z * bytes)) (v : value) : bytes :=
  match v with VStr s => s | _ => value_str iarf_names lineend_names tokenpos_names v end.

Theorem split_option_line iarf_names lineend_names tokenpos_names name v :
  word_ok name = true ->
  (match v with VStr _ => true | _ => word_ok (value_str iarf_names lineend_names tokenpos_names v) end) = true ->
  split_args (option_line iarf_names lineend_names tokenpos_names (name, v))
  = SOk [name; arg_of iarf_names lineend_names tokenpos_names v].
Proof.
  intros Hn Hv. unfold split_args, option_line. cbn [fst snd].
  set (pad := if (length name <? 32)%nat then (32 - length name)%nat else 1%nat).
  assert (Hpad : exists p, pad = S p).
  { subst pad. destruct (length name <? 32)%nat eqn:E; [|exists O; reflexivity].
    apply Nat.ltb_lt in E. exists (31 - length name)%nat. lia. }
  destruct Hpad as [p ->].
  set (vs := value_str iarf_names lineend_names tokenpos_names v).
  assert (EL : name ++ spaces (S p) ++ [61; 32] ++ vs = name ++ 32 :: (repeat 32 p ++ [61; 32]) ++ vs).
  { unfold spaces. cbn [repeat app]. rewrite <- app_assoc. reflexivity. }
  rewrite EL.
  rewrite split_word_then; [|exact Hn|reflexivity|].
  2:{ rewrite forallb_app. change (repeat 32 p) with (spaces p). rewrite (forallb_spaces p). reflexivity. }
  subst vs. destruct v as [b|n|n|n|z|z|s]; cbn [arg_of];
    try (rewrite split_last_word by exact Hv; reflexivity).
  cbn [value_str]. rewrite split_last_quoted. reflexivity.
Qed.

(** ** numbers: strtol (to_dec z) = z *)
Fixpoint val_of (ds : bytes) (a : Z) : Z :=
  match ds with [] => a | d :: r => val_of r (a * 10 + (d - 48)) end.

Lemma digits_all ds : forall a, forallb is_digit ds = true -> digits a ds = (val_of ds a, []).
Proof.
  induction ds as [|d r IH]; intros a H; [reflexivity|].
  cbn [forallb] in H. apply andb_prop in H as [Hd Hr].
  cbn [digits val_of]. rewrite Hd. apply IH. exact Hr.
Qed.

Lemma is_digit_48 n : 0 <= n < 10 -> is_digit (48 + n) = true.
Proof. intros H. unfold is_digit. apply andb_true_intro. split; [apply Z.leb_le|apply Z.leb_le]; lia. Qed.

Lemma dec_digits_spec fuel : forall n acc,
  0 <= n < 10 ^ Z.of_nat fuel -> (fuel >= 1)%nat -> forallb is_digit acc = true ->
  forallb is_digit (dec_digits fuel n acc) = true /\
  val_of (dec_digits fuel n acc) 0 = val_of acc n /\
  dec_digits fuel n acc <> [].
Proof.
  induction fuel as [|f IH]; intros n acc Hn Hf Hacc; [lia|].
  cbn [dec_digits]. destruct (n <? 10) eqn:E.
  - apply Z.ltb_lt in E. repeat split.
    + cbn [forallb]. rewrite is_digit_48 by lia. exact Hacc.
    + cbn [val_of]. f_equal. lia.
    + discriminate.
  - apply Z.ltb_ge in E.
    assert (Hf1 : (f >= 1)%nat).
    { destruct f; [|lia]. cbn in Hn. lia. }
    assert (Hn10 : 0 <= n / 10 < 10 ^ Z.of_nat f).
    { rewrite Nat2Z.inj_succ, Z.pow_succ_r in Hn by lia. lia. }
    assert (Hacc' : forallb is_digit ((48 + n mod 10) :: acc) = true).
    { cbn [forallb]. rewrite is_digit_48 by lia. exact Hacc. }
    destruct (IH (n / 10) ((48 + n mod 10) :: acc) Hn10 Hf1 Hacc') as (H1 & H2 & H3).
    repeat split; [exact H1| |exact H3].
    rewrite H2. cbn [val_of]. f_equal. lia.
Qed.

Lemma is_space_digit c : is_digit c = true -> is_space c = false.
Proof.
  unfold is_digit, is_space. intros H. apply andb_prop in H as [H1 H2].
  apply Z.leb_le in H1, H2.
  replace (c =? 32) with false by (symmetry; apply Z.eqb_neq; lia).
  replace (c <=? 13) with false by (symmetry; apply Z.leb_gt; lia).
  rewrite andb_false_r. reflexivity.
Qed.

Theorem strtol_to_dec z :
  - LONG_MAX - 1 <= z <= LONG_MAX -> strtol (to_dec z) = (z, []).
Proof.
  unfold LONG_MAX. intros Hz. unfold to_dec.
  assert (P20 : 10 ^ Z.of_nat 20 = 100000000000000000000) by (vm_compute; reflexivity).
  destruct (z <? 0) eqn:Eneg.
  - apply Z.ltb_lt in Eneg.
    destruct (dec_digits_spec 20 (- z) []) as (H1 & H2 & H3); [rewrite P20; lia|lia|reflexivity|].
    unfold strtol. cbn [skip_space]. change (is_space 45) with false. cbn iota.
    change (45 =? 45) with true. cbn iota.
    destruct (dec_digits 20 (- z) []) as [|c r] eqn:Ed; [contradiction|].
    cbn [forallb] in H1. apply andb_prop in H1 as [Hc Hr]. rewrite Hc.
    rewrite digits_all by (cbn [forallb]; rewrite Hc; exact Hr).
    rewrite H2. cbn [val_of]. f_equal. unfold clamp, LONG_MAX.
    match goal with |- (if ?a then _ else _) = _ => destruct a eqn:E1 end;
      [rewrite Z.gtb_ltb in E1; apply Z.ltb_lt in E1; lia|].
    match goal with |- (if ?a then _ else _) = _ => destruct a eqn:E2 end;
      [apply Z.ltb_lt in E2; lia|]. lia.
  - apply Z.ltb_ge in Eneg.
    destruct (dec_digits_spec 20 z []) as (H1 & H2 & H3); [rewrite P20; lia|lia|reflexivity|].
    unfold strtol.
    destruct (dec_digits 20 z []) as [|c r] eqn:Ed; [contradiction|].
    cbn [forallb] in H1. apply andb_prop in H1 as [Hc Hr].
    cbn [skip_space]. rewrite (is_space_digit c Hc).
    assert (Hc2 : 48 <= c <= 57).
    { unfold is_digit in Hc. apply andb_prop in Hc as [A B]. apply Z.leb_le in A, B. lia. }
    replace (c =? 45) with false by (symmetry; apply Z.eqb_neq; lia).
    replace (c =? 43) with false by (symmetry; apply Z.eqb_neq; lia).
    rewrite Hc. rewrite digits_all by (cbn [forallb]; rewrite Hc; exact Hr).
    rewrite H2. cbn [val_of]. f_equal. unfold clamp, LONG_MAX.
    match goal with |- (if ?a then _ else _) = _ => destruct a eqn:E1 end;
      [rewrite Z.gtb_ltb in E1; apply Z.ltb_lt in E1; lia|].
    match goal with |- (if ?a then _ else _) = _ => destruct a eqn:E2 end;
      [apply Z.ltb_lt in E2; lia|]. reflexivity.
Qed.

(** ** reading back what the writer printed, any registry satisfying the (boolean, generated-data)
    side conditions [tables_ok] *)
Section RoundTrip.
  Variable registry : list optdef.
  Variable bool_alias : list (bytes * bool).
  Variable iarf_alias lineend_alias tokenpos_alias : list (bytes * Z).
  Variable iarf_names lineend_names tokenpos_names : list (Z * bytes).
  Variable compat_names : list (bytes * option bytes * Z).
  Variable lang_names : list bytes.
  Variable token_names : list bytes.

  Notation read_value := (read_value registry bool_alias iarf_alias lineend_alias tokenpos_alias).
  Notation process_line := (process_line registry bool_alias iarf_alias lineend_alias tokenpos_alias compat_names lang_names token_names).
  Notation load_lines := (load_lines registry bool_alias iarf_alias lineend_alias tokenpos_alias compat_names lang_names token_names).
  Notation value_str := (value_str iarf_names lineend_names tokenpos_names).
  Notation option_line := (option_line iarf_names lineend_names tokenpos_names).
  Notation arg_of := (arg_of iarf_names lineend_names tokenpos_names).

  Definition enum_ok (alias : list (bytes * Z)) (names : list (Z * bytes)) : bool :=
    forallb (fun p => word_ok (snd p) &&
                      match alias_find alias (snd p) with Some n => n =? fst p | None => false end &&
                      beqb (assoc_z names (fst p)) (snd p)) names.

  Definition directives : list bytes :=
    [s_type; s_set; s_file_ext; s_macro_open; s_macro_close; s_macro_else; s_include; s_using].

  Definition name_ok (n : bytes) : bool :=
    word_ok n && beqb (to_lower n) n &&
    forallb (fun d => negb (beqb n d)) directives &&
    forallb (fun c => negb (beqb (fst (fst c)) n)) compat_names.

  Definition tables_ok : bool :=
    forallb (fun o => name_ok (o_name o)) registry &&
    enum_ok iarf_alias iarf_names && enum_ok lineend_alias lineend_names && enum_ok tokenpos_alias tokenpos_names &&
    match alias_find bool_alias [116;114;117;101], alias_find bool_alias [102;97;108;115;101] with
    | Some true, Some false => true | _, _ => false end.

  Definition in_names (names : list (Z * bytes)) (n : Z) : bool := existsb (fun p => fst p =? n) names.

  Definition wf_value (k : kind) (v : value) : bool :=
    match k, v with
    | KBool, VBool _ => true
    | KIarf, VIarf n => in_names iarf_names n
    | KLineEnd, VLineEnd n => in_names lineend_names n
    | KTokenPos, VTokenPos n => in_names tokenpos_names n
    | KNum None, VNum z => (-2147483648 <=? z) && (z <=? 2147483647)
    | KNum (Some (lo, hi)), VNum z => (lo <=? z) && (z <=? hi) && (-2147483648 <=? z) && (z <=? 2147483647)
    | KUnum (Some (lo, hi)), VUnum z => (lo <=? z) && (z <=? hi) && (0 <=? z) && (z <=? 4294967295)
    | KString, VStr _ => true
    | _, _ => false
    end.

  Hypothesis Htables : tables_ok = true.

  Lemma enum_read alias names n :
    enum_ok alias names = true -> in_names names n = true ->
    alias_find alias (assoc_z names n) = Some n /\ word_ok (assoc_z names n) = true.
  Proof.
    unfold enum_ok, in_names. intros Hok Hin.
    apply existsb_exists in Hin as [[k nm] [Hin Hk]]. cbn in Hk. apply Z.eqb_eq in Hk. subst k.
    rewrite forallb_forall in Hok.
    (* assoc_z returns the first entry with this key; that entry is in the table and is ok *)
    assert (Hfirst : exists nm', In (n, nm') names /\ assoc_z names n = nm').
    { clear Hok. induction names as [|[k0 v0] r IH]; [contradiction|].
      cbn [assoc_z]. destruct (k0 =? n) eqn:E.
      - apply Z.eqb_eq in E. subst. exists v0. split; [left; reflexivity|reflexivity].
      - destruct Hin as [Hin|Hin]; [injection Hin as -> _; rewrite Z.eqb_refl in E; discriminate|].
        destruct (IH Hin) as (nm' & H1 & H2). exists nm'. split; [right; exact H1|exact H2]. }
    destruct Hfirst as (nm' & Hin' & Ha). rewrite Ha.
    specialize (Hok _ Hin'). cbn [fst snd] in Hok.
    apply andb_prop in Hok as [Hok _]. apply andb_prop in Hok as [Hw Hal].
    destruct (alias_find alias nm') as [m|]; [|discriminate].
    apply Z.eqb_eq in Hal. subst m. auto.
  Qed.

  Lemma tables_parts :
    forallb (fun o => name_ok (o_name o)) registry = true /\
    enum_ok iarf_alias iarf_names = true /\ enum_ok lineend_alias lineend_names = true /\
    enum_ok tokenpos_alias tokenpos_names = true /\
    alias_find bool_alias [116;114;117;101] = Some true /\ alias_find bool_alias [102;97;108;115;101] = Some false.
  Proof.
    unfold tables_ok in Htables.
    apply andb_prop in Htables as [H H5]. apply andb_prop in H as [H H4].
    apply andb_prop in H as [H H3]. apply andb_prop in H as [H1 H2].
    repeat split; try assumption;
      destruct (alias_find bool_alias [116;114;117;101]) as [[]|];
      destruct (alias_find bool_alias [102;97;108;115;101]) as [[]|]; try discriminate; reflexivity.
  Qed.

  (** the value printed by the writer is read back unchanged, without diagnostics *)
  Theorem read_back vs name k v :
    wf_value k v = true -> read_value vs name k (arg_of v) = (Some v, []).
  Proof.
    destruct tables_parts as (_ & Hi & Hl & Ht & Hbt & Hbf).
    intros Hwf. destruct k as [| | | |[[lo0 hi0]|]|[[lo0 hi0]|]|]; destruct v as [bv|n|n|n|z|z|s];
      cbn [wf_value] in Hwf; try discriminate; unfold Config.read_value; cbn [arg_of Config.value_str].
    - destruct bv; [rewrite Hbt|rewrite Hbf]; reflexivity.
    - destruct (enum_read _ _ n Hi Hwf) as [-> _]. reflexivity.
    - destruct (enum_read _ _ n Hl Hwf) as [-> _]. reflexivity.
    - destruct (enum_read _ _ n Ht Hwf) as [-> _]. reflexivity.
    - (* bounded signed *)
      apply andb_prop in Hwf as [Hwf H4]. apply andb_prop in Hwf as [Hwf H3].
      apply andb_prop in Hwf as [H1 H2]. apply Z.leb_le in H1, H2, H3, H4.
      rewrite strtol_to_dec by (unfold LONG_MAX; lia).
      unfold validate.
      replace (z <? lo0) with false by (symmetry; apply Z.ltb_ge; lia).
      replace (z >? hi0) with false by (symmetry; rewrite Z.gtb_ltb; apply Z.ltb_ge; lia).
      reflexivity.
    - (* unbounded signed: the 32-bit wrap is the identity on int values *)
      apply andb_prop in Hwf as [H3 H4]. apply Z.leb_le in H3, H4.
      rewrite strtol_to_dec by (unfold LONG_MAX; lia).
      cbn [validate mk_num]. unfold wrap32s.
      destruct (z mod 4294967296 >=? 2147483648) eqn:E.
      + rewrite Z.geb_leb in E. apply Z.leb_le in E. repeat f_equal. lia.
      + rewrite Z.geb_leb in E. apply Z.leb_gt in E. repeat f_equal. lia.
    - (* unsigned *)
      apply andb_prop in Hwf as [Hwf H4]. apply andb_prop in Hwf as [Hwf H3].
      apply andb_prop in Hwf as [H1 H2]. apply Z.leb_le in H1, H2, H3, H4.
      rewrite strtol_to_dec by (unfold LONG_MAX; lia).
      unfold validate.
      replace (z <? lo0) with false by (symmetry; apply Z.ltb_ge; lia).
      replace (z >? hi0) with false by (symmetry; rewrite Z.gtb_ltb; apply Z.ltb_ge; lia).
      reflexivity.
    - reflexivity.
  Qed.
End RoundTrip.

Lemma digit_plain c : is_digit c = true -> plain c = true /\ startok c = true.
Proof.
  unfold is_digit. intros H. apply andb_prop in H as [A B]. apply Z.leb_le in A, B.
  unfold startok, plain, is_arg_sep, is_space, is_quote.
  replace (c =? 32) with false by (symmetry; apply Z.eqb_neq; lia).
  replace (c <=? 13) with false by (symmetry; apply Z.leb_gt; lia).
  replace (c =? 44) with false by (symmetry; apply Z.eqb_neq; lia).
  replace (c =? 61) with false by (symmetry; apply Z.eqb_neq; lia).
  replace (c =? 92) with false by (symmetry; apply Z.eqb_neq; lia).
  replace (c =? 35) with false by (symmetry; apply Z.eqb_neq; lia).
  replace (c =? 39) with false by (symmetry; apply Z.eqb_neq; lia).
  replace (c =? 34) with false by (symmetry; apply Z.eqb_neq; lia).
  replace (c =? 96) with false by (symmetry; apply Z.eqb_neq; lia).
  rewrite andb_false_r. split; reflexivity.
Qed.

Lemma digits_plain ds : forallb is_digit ds = true -> forallb plain ds = true.
Proof.
  induction ds as [|d r IH]; cbn; [reflexivity|]. intros H. apply andb_prop in H as [A B].
  rewrite (proj1 (digit_plain d A)). exact (IH B).
Qed.

Lemma to_dec_word z : - LONG_MAX - 1 <= z <= LONG_MAX -> word_ok (to_dec z) = true.
Proof.
  unfold LONG_MAX. intros Hz. unfold to_dec.
  assert (P20 : 10 ^ Z.of_nat 20 = 100000000000000000000) by (vm_compute; reflexivity).
  destruct (z <? 0) eqn:E.
  - apply Z.ltb_lt in E.
    destruct (dec_digits_spec 20 (- z) []) as (H1 & _ & _); [rewrite P20; lia|lia|reflexivity|].
    cbn [word_ok]. change (startok 45) with true. cbn [andb]. apply digits_plain. exact H1.
  - apply Z.ltb_ge in E.
    destruct (dec_digits_spec 20 z []) as (H1 & _ & H3); [rewrite P20; lia|lia|reflexivity|].
    destruct (dec_digits 20 z []) as [|c r]; [contradiction|].
    cbn [forallb] in H1. apply andb_prop in H1 as [A B].
    cbn [word_ok]. rewrite (proj2 (digit_plain c A)). cbn [andb]. apply digits_plain. exact B.
Qed.

Lemma compat_find_none (tbl : list (bytes * option bytes * Z)) n lvl :
  forallb (fun c => negb (beqb (fst (fst c)) n)) tbl = true ->
  compat_find tbl n lvl = None.
Proof.
  induction tbl as [|[[old tgt] thr] r IH]; cbn; [reflexivity|].
  intros H. apply andb_prop in H as [H1 H2]. apply negb_true_iff in H1.
  rewrite H1, andb_false_r. apply IH. exact H2.
Qed.

Section LoadSave.
  Variable registry : list optdef.
  Variable bool_alias : list (bytes * bool).
  Variable iarf_alias lineend_alias tokenpos_alias : list (bytes * Z).
  Variable iarf_names lineend_names tokenpos_names : list (Z * bytes).
  Variable compat_names : list (bytes * option bytes * Z).
  Variable lang_names : list bytes.
  Variable token_names : list bytes.

  Notation process_line := (process_line registry bool_alias iarf_alias lineend_alias tokenpos_alias compat_names lang_names token_names).
  Notation load_lines := (load_lines registry bool_alias iarf_alias lineend_alias tokenpos_alias compat_names lang_names token_names).
  Notation option_line := (option_line iarf_names lineend_names tokenpos_names).
  Notation tables_ok := (tables_ok registry bool_alias iarf_alias lineend_alias tokenpos_alias iarf_names lineend_names tokenpos_names compat_names).
  Notation wf_value := (wf_value iarf_names lineend_names tokenpos_names).
  Notation name_ok := (name_ok compat_names).

  Hypothesis Htables : tables_ok = true.

  Lemma value_word_ok k v : wf_value k v = true ->
    (match v with VStr _ => true | _ => word_ok (value_str iarf_names lineend_names tokenpos_names v) end) = true.
  Proof.
    destruct (tables_parts _ _ _ _ _ _ _ _ _ Htables) as (_ & Hi & Hl & Ht & _).
    intros Hwf. destruct k as [| | | |[[lo hi]|]|[[lo hi]|]|]; destruct v as [bv|n|n|n|z|z|s];
      cbn [ConfigRoundTrip.wf_value] in Hwf; try discriminate; cbn [Config.value_str]; try reflexivity.
    - destruct bv; reflexivity.
    - exact (proj2 (enum_read _ _ n Hi Hwf)).
    - exact (proj2 (enum_read _ _ n Hl Hwf)).
    - exact (proj2 (enum_read _ _ n Ht Hwf)).
    - apply andb_prop in Hwf as [Hwf H4]. apply andb_prop in Hwf as [Hwf H3]. apply Z.leb_le in H3, H4.
      apply to_dec_word. unfold LONG_MAX. lia.
    - apply andb_prop in Hwf as [H3 H4]. apply Z.leb_le in H3, H4. apply to_dec_word. unfold LONG_MAX. lia.
    - apply andb_prop in Hwf as [Hwf H4]. apply andb_prop in Hwf as [Hwf H3]. apply Z.leb_le in H3, H4.
      apply to_dec_word. unfold LONG_MAX. lia.
  Qed.
  Lemma name_ok_parts n : name_ok n = true ->
    word_ok n = true /\ to_lower n = n /\
    forallb (fun d => negb (beqb n d)) directives = true /\
    forallb (fun c => negb (beqb (fst (fst c)) n)) compat_names = true.
  Proof.
    unfold ConfigRoundTrip.name_ok. intros H.
    apply andb_prop in H as [H H4]. apply andb_prop in H as [H H3]. apply andb_prop in H as [H1 H2].
    apply beqb_eq in H2. auto.
  Qed.

  (** one line written by the writer sets exactly that option to exactly that value, silently *)
  Theorem process_option_line st name k v :
    name_ok name = true -> lookup_kind registry name = Some k -> wf_value k v = true ->
    process_line st (option_line (name, v)) =
      ({| vals := set_val (vals st) name v; kws := kws st; exts := exts st; compat := compat st;
          includes := includes st |}, []).
  Proof.
    intros Hn Hk Hwf.
    destruct (name_ok_parts name Hn) as (Hw & Hlow & Hdir & Hcompat).
    unfold Config.process_line.
    rewrite split_option_line by (try exact Hw; eapply value_word_ok; eauto).
    rewrite Hlow.
    cbn [directives forallb] in Hdir.
    repeat (apply andb_prop in Hdir as [?Hd Hdir]).
    repeat match goal with H : negb (beqb name _) = true |- _ => apply negb_true_iff in H end.
    repeat match goal with H : beqb name ?d = false |- _ => rewrite H; clear H end.
    cbn [orb length Nat.ltb Nat.leb].
    rewrite (compat_find_none compat_names name (compat st) Hcompat).
    unfold Config.set_option. rewrite Hk.
    rewrite (read_back registry bool_alias iarf_alias lineend_alias tokenpos_alias
                       iarf_names lineend_names tokenpos_names compat_names Htables (vals st) name k v Hwf).
    reflexivity.
  Qed.

  (** set_val on an aligned list *)
  Lemma set_val_mid done n u v rest :
    ~ In n (map fst done) ->
    set_val (done ++ (n, u) :: rest) n v = done ++ (n, v) :: rest.
  Proof.
    induction done as [|[m x] d IH]; cbn [app set_val map fst].
    - intros _. rewrite beqb_refl. reflexivity.
    - intros Hni. destruct (beqb m n) eqn:E.
      + apply beqb_eq in E. subst. exfalso. apply Hni. left. reflexivity.
      + f_equal. apply IH. intros X. apply Hni. right. exact X.
  Qed.

  Fixpoint kind_of_all (rg : list optdef) (names : list bytes) : Prop :=
    match names with [] => True | n :: r => (exists k, lookup_kind rg n = Some k) /\ kind_of_all rg r end.

  (** C15 core: loading what the writer printed for the option table gives back exactly that table,
      whatever the options were before, with no diagnostic *)
  Theorem load_saved_options : forall todo done pending st ln,
    vals st = done ++ pending ->
    map fst pending = map fst todo ->
    NoDup (map fst (done ++ todo)) ->
    Forall (fun nv => name_ok (fst nv) = true /\
                      exists k, lookup_kind registry (fst nv) = Some k /\ wf_value k (snd nv) = true) todo ->
    let r := load_lines st ln (map option_line todo) in
    vals (fst r) = done ++ todo /\ snd r = [] /\
    kws (fst r) = kws st /\ exts (fst r) = exts st.
  Proof.
    induction todo as [|[n v] todo IH]; intros done pending st ln Hv Hnames Hnd Hall.
    - destruct pending; [|discriminate]. cbn. rewrite Hv. auto.
    - destruct pending as [|[n' u] pending]; [discriminate|].
      cbn [map fst] in Hnames. injection Hnames as -> Hnames.
      inversion Hall as [|? ? (Hok & k & Hk & Hwf) Hall']; subst. cbn [fst snd] in *.
      cbn [map Config.load_lines].
      rewrite (process_option_line st n k v Hok Hk Hwf).
      assert (Hni : ~ In n (map fst done)).
      { rewrite map_app in Hnd. cbn [map fst] in Hnd. apply NoDup_remove_2 in Hnd.
        intros X. apply Hnd. apply in_or_app. left. exact X. }
      rewrite Hv, set_val_mid by exact Hni.
      specialize (IH (done ++ [(n, v)]) pending
                     {| vals := done ++ (n, v) :: pending; kws := kws st; exts := exts st;
                        compat := compat st; includes := includes st |} (S ln)).
      cbn [vals kws exts] in IH.
      destruct IH as (I1 & I2 & I3 & I4).
      + rewrite <- app_assoc. reflexivity.
      + exact Hnames.
      + rewrite <- app_assoc. exact Hnd.
      + exact Hall'.
      + destruct (Config.load_lines _ _ _ _ _ _ _ _ _ _ _) as [st2 ds] eqn:E.
        cbn [fst snd] in *. rewrite <- app_assoc in I1. cbn [app] in I1.
        repeat split; assumption.
  Qed.
End LoadSave.

