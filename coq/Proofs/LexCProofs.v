(** Proofs about Model/LexC.v: the lexer partitions its input - nothing dropped, duplicated or reordered - and
    always makes progress. *)
From Coq Require Import List ZArith Bool Arith Lia.
From UV Require Import Model.LexC.
Import ListNotations.
Local Open Scope Z_scope.

Theorem lex_all_lossless fuel : forall s l, (length l <= fuel)%nat -> concat (map tt (lex_all fuel s l)) = l.
Proof.
  induction fuel as [|f IH]; intros s l Hl.
  - destruct l; [reflexivity|cbn in Hl; lia].
  - destruct l as [|c r]; [reflexivity|]. cbn [lex_all].
    destruct (scan s (c :: r)) as [[k n] s'].
    cbn [map concat tt].
    set (n' := Nat.max 1 n).
    rewrite IH.
    + apply firstn_skipn.
    + rewrite skipn_length. cbn [length] in *. lia.
Qed.

Theorem lex_lossless l : concat (map tt (lex l)) = l.
Proof. apply lex_all_lossless. lia. Qed.

Theorem lex_all_nonempty fuel : forall s l, Forall (fun t => tt t <> []) (lex_all fuel s l).
Proof.
  induction fuel as [|f IH]; intros s l; [constructor|].
  destruct l as [|c r]; [constructor|]. cbn [lex_all].
  destruct (scan s (c :: r)) as [[k n] s']. constructor; [|apply IH].
  cbn [tt]. destruct (Nat.max 1 n) eqn:E; [lia|]. cbn. discriminate.
Qed.

(** the code characters: what is left of a text when its white-space tokens are taken out *)
Definition non_ws (t : tok) : bool := match tk t with KWs => false | _ => true end.

(** two texts with the same tokens have the same characters outside white space, in the same order *)
Theorem same_tokens_same_chars a b :
  filter non_ws (lex a) = filter non_ws (lex b) ->
  concat (map tt (filter non_ws (lex a))) = concat (map tt (filter non_ws (lex b))).
Proof. intros ->. reflexivity. Qed.
