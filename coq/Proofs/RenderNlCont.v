(** The writer recomputes the column of a backslash-newline that was not aligned (output.cpp, CT_NL_CONT branch).
    With sp_before_nl_cont = force it writes exactly one blank in front of the backslash, with remove none - whatever
    column the spacing pass had chosen (C19: the option means what it says where the writer, not space_text(), decides). *)
From Coq Require Import List ZArith Bool Lia.
From UV Require Import Model.Render Proofs.RenderProofs.
Import ListNotations.
Local Open Scope Z_scope.

Section NlCont.
  Variable o : ropts.

  Lemma nlcont_tail s colv :
    quiet s -> spaces s = 0 -> column s <= colv ->
    out (after_newline (add_char o (add_char o (output_to_column o s colv false) 92 false) 10 false))
      = NL :: Ch 92 :: repeat (Ch 32) (Z.to_nat (colv - column s)) ++ out s.
  Proof.
    intros Hq H0 Hc.
    destruct (output_to_column_spaces o s colv Hq Hc) as (A & _ & C & _ & _). cbn zeta in *.
    set (s1 := output_to_column o s colv false) in *.
    rewrite (add_char_plain o s1 92 false C) by discriminate.
    destruct (add_char1_plain o s1 92 C) as (_ & _ & C2 & _ & _ & F); try discriminate.
    destruct (F ltac:(discriminate)) as (F0 & F1). cbn zeta in *.
    set (s2 := add_char1 o s1 92) in *.
    destruct (add_char_nl o s2 C2 F0) as (G & _). cbn zeta in *.
    change (out (after_newline (add_char o s2 10 false))) with (out (add_char o s2 10 false)).
    rewrite G, F1, A. unfold all_out. rewrite H0. reflexivity.
  Qed.

  Theorem nlcont_force_one_blank rp c s :
    quiet s -> spaces s = 0 -> was_aligned c = false -> sp_before_nl_cont o = 3 ->
    out (render_nlcont o rp c s) = NL :: Ch 92 :: Ch 32 :: out s.
  Proof.
    intros Hq H0 Ha Hv. unfold render_nlcont. rewrite Ha, Hv.
    change (Z.land 3 2 =? 2) with true. change (3 =? 3) with true. cbn [negb]. cbv iota.
    rewrite (nlcont_tail s (column s + 1) Hq H0) by lia.
    replace (column s + 1 - column s) with 1 by lia. reflexivity.
  Qed.

  Theorem nlcont_remove_no_blank rp c s :
    quiet s -> spaces s = 0 -> was_aligned c = false -> sp_before_nl_cont o = 2 ->
    out (render_nlcont o rp c s) = NL :: Ch 92 :: out s.
  Proof.
    intros Hq H0 Ha Hv. unfold render_nlcont. rewrite Ha, Hv.
    change (Z.land 2 2 =? 2) with true. change (2 =? 3) with false. cbn [negb]. cbv iota.
    rewrite (nlcont_tail s (column s + 0) Hq H0) by lia.
    replace (column s + 0 - column s) with 0 by lia. reflexivity.
  Qed.
End NlCont.
