(** Proofs about Model/Backup.v.  Hypothesis (Section variable, not an axiom): the digest is
    injective on the contents that occur ([digest_eqb (h a) (h b) = bytes_eqb a b]); MD5 collisions
    are outside the claim. *)
From Coq Require Import List ZArith Bool Arith Lia.
From UV Require Import Model.FsProto Model.Backup Proofs.FsProofs.
Import ListNotations.

Section BackupProofs.
  Variable digest : Type.
  Variable h : bytes -> digest.
  Variable digest_eqb : digest -> digest -> bool.
  Hypothesis h_inj : forall a b, digest_eqb (h a) (h b) = bytes_eqb a b.

  Notation bst := (bst digest).
  Notation step := (Backup.step digest h digest_eqb).
  Notation own := (own digest h digest_eqb).
  Notation R := (R digest h).

  Lemma own_R g s : R g s -> own s = opt_bytes_eqb (g_last g) (g_file g).
  Proof.
    intros (Hf & _ & Hm). unfold Backup.own. rewrite Hm, Hf.
    destruct (g_last g) as [l|]; cbn; [apply h_inj|reflexivity].
  Qed.

  (** one step of an edit/completed-run history preserves the refinement *)
  Lemma R_step g s e : completed_only e = true -> R g s -> R (gstep g e) (step s e).
  Proof.
    intros Hc HR. pose proof (own_R g s HR) as Ho. destruct HR as (Hf & Hb & Hm).
    destruct e as [c|f ph]; cbn [Backup.step gstep].
    - repeat split; cbn; assumption.
    - destruct ph; try discriminate. unfold run_step. rewrite Ho, Hf.
      destruct (f (g_file g)) as [out|];
        destruct (opt_bytes_eqb (g_last g) (g_file g)); cbn; repeat split; cbn; try assumption; reflexivity.
  Qed.

  (** ** C14, completed runs: for every history the backup holds exactly the text the property names and
      the md5 file describes what uncrustify last left *)
  Theorem backup_exact : forall hist g s,
    forallb completed_only hist = true -> R g s ->
    R (fold_left gstep hist g) (fold_left step hist s).
  Proof.
    induction hist as [|e hist IH]; intros g s Hc HR; [exact HR|].
    cbn [forallb] in Hc. apply andb_prop in Hc as [He Hh]. cbn [fold_left].
    apply IH; [exact Hh|]. apply R_step; assumption.
  Qed.

  (** consequence spelled out: a second run never overwrites the backup with uncrustify's own output *)
  Corollary rerun_keeps_backup : forall g s f1 f2 out1,
    R g s -> f1 (g_file g) = Some out1 ->
    b_backup (step (step s (Run f1 Completed)) (Run f2 Completed)) = b_backup (step s (Run f1 Completed)).
  Proof.
    intros g s f1 f2 out1 HR H1.
    pose proof (R_step g s (Run f1 Completed) eq_refl HR) as HR1.
    pose proof (R_step _ _ (Run f2 Completed) eq_refl HR1) as HR2.
    destruct HR1 as (_ & Hb1 & _). destruct HR2 as (_ & Hb2 & _).
    rewrite Hb1, Hb2. f_equal.
    cbn [gstep]. rewrite H1. cbn [g_file g_last g_prist opt_bytes_eqb].
    rewrite bytes_eqb_refl. cbn [negb].
    destruct (f2 out1); reflexivity.
  Qed.

  (** ** kill safety *)
  Notation protected := (protected digest h digest_eqb).
  Notation pstep := (pstep digest h digest_eqb).
  Notation admissible := (admissible digest h digest_eqb).

  (** inductive invariant: a file uncrustify does not recognise as its own IS the text to protect;
      a file it recognises as its own has that text in a complete backup *)
  Definition inv (prot : bytes) (s : bst) : Prop :=
    if own s then b_backup s = Some (prot, true) else b_file s = prot.

  Lemma inv_protected prot s : inv prot s -> protected prot s.
  Proof. unfold inv, Backup.protected. destruct (own s) eqn:E; intros H; [left; exact H|right; auto]. Qed.

  Lemma own_after_write (s : bst) out fl bk :
    own {| b_file := fl; b_backup := bk; b_md5 := Some (h out) |} = bytes_eqb out fl.
  Proof. unfold Backup.own. cbn. apply h_inj. Qed.

  Lemma inv_step prot s e :
    admissible s e = true -> inv prot s -> inv (pstep prot s e) (step s e).
  Proof.
    intros Ha HI. unfold inv in *. destruct e as [c|f ph].
    - (* user edit *)
      cbn in Ha. apply negb_true_iff in Ha.
      assert (Ho : own {| b_file := c; b_backup := b_backup s; b_md5 := b_md5 s |} = false).
      { unfold Backup.own. cbn. destruct (b_md5 s); [exact Ha|reflexivity]. }
      cbn [Backup.step Backup.pstep]. rewrite Ho. reflexivity.
    - destruct ph; cbn [Backup.step run_step Backup.pstep].
      + exact HI.
      + (* K1 *)
        destruct (own s) eqn:Eo; cbn [negb].
        * assert (Ho : own {| b_file := b_file s; b_backup := b_backup s; b_md5 := b_md5 s |} = true)
            by (unfold Backup.own in *; cbn; exact Eo).
          rewrite Ho. exact HI.
        * assert (Ho : own {| b_file := b_file s; b_backup := Some (firstn j (b_file s), false); b_md5 := b_md5 s |} = false)
            by (unfold Backup.own in *; cbn; exact Eo).
          rewrite Ho. exact HI.
      + (* K2 *)
        destruct (own s) eqn:Eo; cbn [negb].
        * assert (Ho : own {| b_file := b_file s; b_backup := b_backup s; b_md5 := b_md5 s |} = true)
            by (unfold Backup.own in *; cbn; exact Eo).
          rewrite Ho. exact HI.
        * assert (Ho : own {| b_file := b_file s; b_backup := Some (b_file s, true); b_md5 := b_md5 s |} = false)
            by (unfold Backup.own in *; cbn; exact Eo).
          rewrite Ho. reflexivity.
      + (* K3: admissible only when the run started on a file that is not uncrustify's own *)
        cbn in Ha. apply negb_true_iff in Ha. rewrite Ha in *. cbn [negb].
        destruct (f (b_file s)) as [out|].
        * rewrite own_after_write by exact s.
          destruct (bytes_eqb out (b_file s)); reflexivity.
        * assert (Ho : own {| b_file := b_file s; b_backup := Some (b_file s, true); b_md5 := b_md5 s |} = false)
            by (unfold Backup.own in *; cbn; exact Ha).
          rewrite Ho. reflexivity.
      + (* Completed *)
        destruct (own s) eqn:Eo; cbn [negb].
        * destruct (f (b_file s)) as [out|].
          -- rewrite own_after_write by exact s.
             destruct (bytes_eqb out out) eqn:E; [exact HI|rewrite bytes_eqb_refl in E; discriminate].
          -- assert (Ho : own {| b_file := b_file s; b_backup := b_backup s; b_md5 := b_md5 s |} = true)
               by (unfold Backup.own in *; cbn; exact Eo).
             rewrite Ho. exact HI.
        * destruct (f (b_file s)) as [out|].
          -- rewrite own_after_write by exact s. rewrite bytes_eqb_refl. reflexivity.
          -- assert (Ho : own {| b_file := b_file s; b_backup := Some (b_file s, true); b_md5 := b_md5 s |} = false)
               by (unfold Backup.own in *; cbn; exact Eo).
             rewrite Ho. reflexivity.
  Qed.

  (** run a history, checking admissibility along the way *)
  Fixpoint play (prot : bytes) (s : bst) (hist : list event) : option (bytes * bst) :=
    match hist with
    | [] => Some (prot, s)
    | e :: r => if admissible s e then play (pstep prot s e) (step s e) r else None
    end.

  (** C14 with killed runs: after ANY admissible history of edits, completed runs and runs killed in
      any phase, the text to protect is recoverable: a complete backup holds it, or the file itself
      still holds it and will be backed up by the next run *)
  Theorem backup_kill_safe : forall hist prot s prot' s',
    inv prot s -> play prot s hist = Some (prot', s') -> protected prot' s'.
  Proof.
    induction hist as [|e hist IH]; intros prot s prot' s' HI Hp; cbn [play] in Hp.
    - injection Hp as <- <-. apply inv_protected. exact HI.
    - destruct (admissible s e) eqn:Ea; [|discriminate].
      eapply IH; [|exact Hp]. apply inv_step; assumption.
  Qed.

  Lemma inv_init fl : inv fl {| b_file := fl; b_backup := None; b_md5 := None |}.
  Proof. reflexivity. Qed.
End BackupProofs.

(** The excluded window is a real loss: a run that started on uncrustify's own output and is killed
    between writing the md5 and the rename makes the NEXT run overwrite the backup with uncrustify's
    own output.  Witness with digest := bytes, h := identity (known finding, not repaired: closing it
    needs a change of the md5 file format). *)
Definition idh (b : bytes) : bytes := b.
Theorem backup_kill_window_refuted :
  exists hist : list (event), exists user_text : bytes,
    let s0 := {| b_file := user_text; b_backup := None; b_md5 := None |} in
    let s := fold_left (step bytes idh bytes_eqb) hist s0 in
    b_backup s <> Some (user_text, true) /\ b_file s <> user_text.
Proof.
  exists [Run (fun _ => Some [2%Z]) Completed; Run (fun _ => Some [3%Z]) K3; Run (fun _ => Some [3%Z]) Completed].
  exists [0%Z]. vm_compute. split; intros H; discriminate.
Qed.
