(** The frame condition instantiated with the GENERATED inventory of writes to the global cpd
    (coq/Gen/Globals.v).  A field that is written while a file is processed must be reset to its initial value in
    uncrustify_end, or be assigned unconditionally by the per-file set-up code, or be listed below with the
    reviewed reason why it cannot carry information into the next file.  A new write site, a dropped reset or a
    new field breaks [frame_instance]. *)
From Coq Require Import List ZArith Bool.
From UV Require Import Model.Config Gen.Globals.
Import ListNotations.
Local Open Scope Z_scope.

Definition s (x : list Z) := x.

(** reviewed justifications (each is also validated by the batch-versus-single oracle on every run) *)
Definition justified : list (list Z) := [
  (* lang_flags: assigned on BOTH branches at the head of do_source_file (fix ef701fe), before the file is read *)
  [108;97;110;103;95;102;108;97;103;115];
  (* last_char: at the end of output_text the last character written is never CR (contract K_textws, checked by the oracle) *)
  [108;97;115;116;95;99;104;97;114];
  (* spaces: zero at the end of output_text (C17 theorems: a line break or a non-blank character flushes the buffer) *)
  [115;112;97;99;101;115];
  (* check_fail_cnt: accumulates the --check verdicts by design; never read by formatting code *)
  [99;104;101;99;107;95;102;97;105;108;95;99;110;116];
  (* line_number: used while the configuration is loaded, before any source file *)
  [108;105;110;101;95;110;117;109;98;101;114];
  (* unc_off_used: written, never read *)
  [117;110;99;95;111;102;102;95;117;115;101;100];
  (* frag: command line constant; the only other writer is the emscripten entry point *)
  [102;114;97;103];
  (* al_c99_array: assigned false at the start of align_init_brace before it is read *)
  [97;108;95;99;57;57;95;97;114;114;97;121];
  (* al: entries at indices >= al_cnt are dead, al_cnt is reset *)
  [97;108];
  (* frag_cols: zeroed in output_text whenever it is non-zero *)
  [102;114;97;103;95;99;111;108;115];
  (* newline: assigned on every branch at the end of tokenize() *)
  [110;101;119;108;105;110;101];
  (* column: assigned at the start of output_text; the tokenizer does not read it *)
  [99;111;108;117;109;110];
  (* output_trailspace / output_tab_as_space: assigned for every chunk before use in output_text *)
  [111;117;116;112;117;116;95;116;114;97;105;108;115;112;97;99;101];
  [111;117;116;112;117;116;95;116;97;98;95;97;115;95;115;112;97;99;101];
  (* unc_stage: assigned at the start of uncrustify_start / uncrustify_file; used for log text only *)
  [117;110;99;95;115;116;97;103;101];
  (* filename: assigned per file in do_source_file *)
  [102;105;108;101;110;97;109;101];
  (* fout: assigned at the start of output_text *)
  [102;111;117;116];
  (* did_newline: assigned true at the start of output_text (and in uncrustify_end) *)
  [100;105;100;95;110;101;119;108;105;110;101]
].

Definition needs_justification (r : list Z * bool * bool * bool) : bool :=
  let '(name, w, reset, prep) := r in w && negb reset && negb prep.

Definition unjustified : list (list Z) :=
  map (fun r => fst (fst (fst r)))
      (filter (fun r => needs_justification r && negb (existsb (beqb (fst (fst (fst r)))) justified)) cpd_fields).

(** re-proved on every run against the regenerated inventory *)
Theorem frame_instance : unjustified = [].
Proof. vm_compute. reflexivity. Qed.

(** and no justification is stale: every justified field still exists *)
Theorem justified_fields_exist :
  forallb (fun j => existsb (fun r => beqb (fst (fst (fst r))) j) cpd_fields) justified = true.
Proof. vm_compute. reflexivity. Qed.
