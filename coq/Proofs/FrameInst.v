(** The frame condition instantiated with the GENERATED inventory of writes to the global cpd
    (coq/Gen/Globals.v).  A field that is written while a file is processed must be reset to its initial value in
    uncrustify_end, or be assigned unconditionally by the per-file set-up code, or be listed below with the
    reviewed reason why it cannot carry information into the next file.  A new write site, a dropped reset or a
    new field breaks [frame_instance]. *)
From Coq Require Import List ZArith Bool.
From UV Require Import Model.Config Gen.Globals.
Import ListNotations.
Local Open Scope Z_scope.

Definition s (x : list Z) := x.

(** reviewed justifications (each is also validated by the batch-versus-single oracle on every run) *)
Definition justified : list (list Z) := [
  (* lang_flags: assigned on BOTH branches at the head of do_source_file (fix 8f3a03b), before the file is read *)
  [108;97;110;103;95;102;108;97;103;115];
  (* last_char: at the end of output_text the last character written is never CR (contract K_textws, checked by the oracle) *)
  [108;97;115;116;95;99;104;97;114];
  (* spaces: zero at the end of output_text (C17 theorems: a line break or a non-blank character flushes the buffer) *)
  [115;112;97;99;101;115];
  (* check_fail_cnt: accumulates the --check verdicts by design; never read by formatting code *)
  [99;104;101;99;107;95;102;97;105;108;95;99;110;116];
  (* line_number: used while the configuration is loaded, before any source file *)
  [108;105;110;101;95;110;117;109;98;101;114];
  (* unc_off_used: written, never read *)
  [117;110;99;95;111;102;102;95;117;115;101;100];
  (* frag: command line constant; the only other writer is the emscripten entry point *)
  [102;114;97;103];
  (* al_c99_array: assigned false at the start of align_init_brace before it is read *)
  [97;108;95;99;57;57;95;97;114;114;97;121];
  (* al: entries at indices >= al_cnt are dead, al_cnt is reset *)
  [97;108];
  (* frag_cols: zeroed in output_text whenever it is non-zero *)
  [102;114;97;103;95;99;111;108;115];
  (* newline: assigned on every branch at the end of tokenize() *)
  [110;101;119;108;105;110;101];
  (* column: assigned at the start of output_text; the tokenizer does not read it *)
  [99;111;108;117;109;110];
  (* output_trailspace / output_tab_as_space: assigned for every chunk before use in output_text *)
  [111;117;116;112;117;116;95;116;114;97;105;108;115;112;97;99;101];
  [111;117;116;112;117;116;95;116;97;98;95;97;115;95;115;112;97;99;101];
  (* unc_stage: assigned at the start of uncrustify_start / uncrustify_file; used for log text only *)
  [117;110;99;95;115;116;97;103;101];
  (* filename: assigned per file in do_source_file *)
  [102;105;108;101;110;97;109;101];
  (* fout: assigned at the start of output_text *)
  [102;111;117;116];
  (* did_newline: assigned true at the start of output_text (and in uncrustify_end) *)
  [100;105;100;95;110;101;119;108;105;110;101]
].

Definition needs_justification (r : list Z * bool * bool * bool) : bool :=
  let '(name, w, reset, prep) := r in w && negb reset && negb prep.

Definition unjustified : list (list Z) :=
  map (fun r => fst (fst (fst r)))
      (filter (fun r => needs_justification r && negb (existsb (beqb (fst (fst (fst r)))) justified)) cpd_fields).

(** re-proved on every run against the regenerated inventory *)
Theorem frame_instance : unjustified = [].
Proof. vm_compute. reflexivity. Qed.

(** and no justification is stale: every justified field still exists *)
Theorem justified_fields_exist :
  forallb (fun j => existsb (fun r => beqb (fst (fst (fst r))) j) cpd_fields) justified = true.
Proof. vm_compute. reflexivity. Qed.

(** ** static-storage variables outside cpd (second generated inventory): every one that is not declared const/constexpr is
    reviewed here - constant in effect, per invocation (configuration), diagnostics only, or emptied per file.  A new
    mutable static - the classic way for one file to leave something behind for the next - is not in this list. *)
Definition statics_ok : list (list Z * list Z) := [
  (* char_table.h chars: constant classification table, never written *)
  ([99;104;97;114;95;116;97;98;108;101;46;104], [99;104;97;114;115]);
  (* chunk.cpp gChunkList: the chunk list: emptied by uncrustify_end() (every chunk deleted) - C11's batch oracle compares the dumped lists *)
  ([99;104;117;110;107;46;99;112;112], [103;67;104;117;110;107;76;105;115;116]);
  (* chunk.h NullChunk: the null chunk sentinel, never linked into the list *)
  ([99;104;117;110;107;46;104], [78;117;108;108;67;104;117;110;107]);
  (* chunk_tag_t_keywords.h keywords: keyword table, sorted once at start-up (init_keywords), not written per file *)
  ([99;104;117;110;107;95;116;97;103;95;116;95;107;101;121;119;111;114;100;115;46;104], [107;101;121;119;111;114;100;115]);
  (* keywords.cpp dkwm: dynamic keywords of the configuration (load once per invocation) *)
  ([107;101;121;119;111;114;100;115;46;99;112;112], [100;107;119;109]);
  (* keywords.cpp keyword_for_lang: scratch table rebuilt by keywords_are_sorted()/init per language query from constants *)
  ([107;101;121;119;111;114;100;115;46;99;112;112], [107;101;121;119;111;114;100;95;102;111;114;95;108;97;110;103]);
  (* keywords.cpp language_count: size of the scratch table above *)
  ([107;101;121;119;111;114;100;115;46;99;112;112], [108;97;110;103;117;97;103;101;95;99;111;117;110;116]);
  (* language_names.cpp language_names: constant name table *)
  ([108;97;110;103;117;97;103;101;95;110;97;109;101;115;46;99;112;112], [108;97;110;103;117;97;103;101;95;110;97;109;101;115]);
  (* language_names.cpp lang_liste: buffer for a usage message *)
  ([108;97;110;103;117;97;103;101;95;110;97;109;101;115;46;99;112;112], [108;97;110;103;95;108;105;115;116;101]);
  (* language_names.h g_ext_map: file_ext map of the configuration (once per invocation) *)
  ([108;97;110;103;117;97;103;101;95;110;97;109;101;115;46;104], [103;95;101;120;116;95;109;97;112]);
  (* logger.cpp g_fq: function-name stack of the logger (diagnostics only) *)
  ([108;111;103;103;101;114;46;99;112;112], [103;95;102;113]);
  (* logger.cpp g_log: log buffer and severity mask (diagnostics only) *)
  ([108;111;103;103;101;114;46;99;112;112], [103;95;108;111;103]);
  (* option.cpp config_name_logged: diagnostic 'config file name printed once' flag *)
  ([111;112;116;105;111;110;46;99;112;112], [99;111;110;102;105;103;95;110;97;109;101;95;108;111;103;103;101;100]);
  (* option.cpp include_depth: nesting depth of 'include' while a configuration is loaded; back to 0 when loading ends *)
  ([111;112;116;105;111;110;46;99;112;112], [105;110;99;108;117;100;101;95;100;101;112;116;104]);
  (* option.cpp eol: line-end text of the configuration writer, set once from the first file written *)
  ([111;112;116;105;111;110;46;99;112;112], [101;111;108]);
  (* output.cpp regex_map: cache of compiled regular expressions keyed by the option values they were built from (pure function of the key) *)
  ([111;117;116;112;117;116;46;99;112;112], [114;101;103;101;120;95;109;97;112]);
  (* parsing_frame_stack.cpp seq_ref_no: sequence number used in log lines only *)
  ([112;97;114;115;105;110;103;95;102;114;97;109;101;95;115;116;97;99;107;46;99;112;112], [115;101;113;95;114;101;102;95;110;111]);
  (* unc_tools.cpp counter: debug dump counter (prot_the_line), diagnostics only *)
  ([117;110;99;95;116;111;111;108;115;46;99;112;112], [99;111;117;110;116;101;114]);
  (* unc_tools.cpp tokenCounter: debug dump counter, diagnostics only *)
  ([117;110;99;95;116;111;111;108;115;46;99;112;112], [116;111;107;101;110;67;111;117;110;116;101;114]);
  (* unc_tools.cpp file_num: debug dump file number, diagnostics only *)
  ([117;110;99;95;116;111;111;108;115;46;99;112;112], [102;105;108;101;95;110;117;109]);
  (* width.cpp pri_table: constant priority table *)
  ([119;105;100;116;104;46;99;112;112], [112;114;105;95;116;97;98;108;101]);
  (* tokenizer/tokenize.cpp intr_txt: constant text used for comparison *)
  ([116;111;107;101;110;105;122;101;114;47;116;111;107;101;110;105;122;101;46;99;112;112], [105;110;116;114;95;116;120;116])
].

Definition is_const_static (v : list Z * list Z * bool * bool) : bool := snd (fst v).
Definition static_key (v : list Z * list Z * bool * bool) : list Z * list Z := (fst (fst (fst v)), snd (fst (fst v))).
Definition key_eqb (a b : list Z * list Z) : bool := beqb (fst a) (fst b) && beqb (snd a) (snd b).

(** a static declared const still carries state when it is function-local and initialised at first use from something
    that differs per file: such locals are listed, too (only constants of the invocation qualify) *)
Definition const_locals_ok : list (list Z * list Z) := [
  (* uncrustify.cpp lang_flags_from_cli: see above *)
  ([117;110;99;114;117;115;116;105;102;121;46;99;112;112], [108;97;110;103;95;102;108;97;103;115;95;102;114;111;109;95;99;108;105]);
  (* option.cpp values: literal value-name tables of the option types *)
  ([111;112;116;105;111;110;46;99;112;112], [118;97;108;117;101;115]);
  (* unicode.cpp min_value: literal table *)
  ([117;110;105;99;111;100;101;46;99;112;112], [109;105;110;95;118;97;108;117;101]);
  (* parsing_frame.cpp CONTAINER_INIT_SIZE: constexpr literal *)
  ([112;97;114;115;105;110;103;95;102;114;97;109;101;46;99;112;112], [67;79;78;84;65;73;78;69;82;95;73;78;73;84;95;83;73;90;69])
].

Definition unreviewed_statics : list (list Z * list Z) :=
  map static_key (filter (fun v => negb (if is_const_static v
                                         then negb (snd v) || existsb (key_eqb (static_key v)) (const_locals_ok ++ statics_ok)
                                         else existsb (key_eqb (static_key v)) statics_ok)) static_vars).

Theorem statics_reviewed : unreviewed_statics = [].
Proof. vm_compute. reflexivity. Qed.

Theorem reviewed_statics_exist :
  forallb (fun k => existsb (fun v => key_eqb (static_key v) k) static_vars) (statics_ok ++ const_locals_ok) = true.
Proof. vm_compute. reflexivity. Qed.
