(** The generic configuration theorems instantiated with the GENERATED registry (coq/Gen/Registry.v,
    re-generated from /repo/src on every run): the boolean side conditions are re-proved by
    computation against what the source says now. *)
From Coq Require Import List ZArith Bool Arith Lia.
From UV Require Import Model.ConfigDefs Model.Config Gen.Registry Model.ConfigInst
     Proofs.ConfigProofs Proofs.ConfigRoundTrip.
Import ListNotations.
Local Open Scope Z_scope.

Definition inst_tables_ok : bool :=
  tables_ok registry bool_alias iarf_alias lineend_alias tokenpos_alias iarf_names lineend_names tokenpos_names compat_names.

Lemma inst_tables : inst_tables_ok = true.
Proof. vm_compute. reflexivity. Qed.

Fixpoint nodupb (l : list bytes) : bool :=
  match l with [] => true | x :: r => negb (existsb (beqb x) r) && nodupb r end.

Lemma nodupb_NoDup l : nodupb l = true -> NoDup l.
Proof.
  induction l as [|x r IH]; cbn; intros H; constructor.
  - apply andb_prop in H as [H _]. apply negb_true_iff in H.
    intros Hin. assert (X : existsb (beqb x) r = true).
    { apply existsb_exists. exists x. split; [exact Hin|apply beqb_refl]. }
    congruence.
  - apply IH. apply andb_prop in H as [_ H]. exact H.
Qed.

Definition reg_names : list bytes := map o_name registry.

Lemma reg_names_nodup : NoDup reg_names.
Proof. apply nodupb_NoDup. vm_compute. reflexivity. Qed.

(** every registered name resolves to a kind (lookup finds it) *)
Lemma reg_lookup_total : forallb (fun n => match lookup_kind registry n with Some _ => true | None => false end) reg_names = true.
Proof. vm_compute. reflexivity. Qed.

Definition wf_vals (vs : list (bytes * value)) : Prop :=
  map fst vs = reg_names /\
  Forall (fun nv => exists k, lookup_kind registry (fst nv) = Some k /\
                              wf_value iarf_names lineend_names tokenpos_names k (snd nv) = true) vs.

Lemma name_ok_of_registered n :
  In n reg_names -> name_ok compat_names n = true.
Proof.
  intros Hin. pose proof inst_tables as Ht. unfold inst_tables_ok, tables_ok in Ht.
  apply andb_prop in Ht as [Ht _]. apply andb_prop in Ht as [Ht _].
  apply andb_prop in Ht as [Ht _]. apply andb_prop in Ht as [Ht _].
  rewrite forallb_forall in Ht. unfold reg_names in Hin. apply in_map_iff in Hin as (o & <- & Ho).
  apply Ht. exact Ho.
Qed.

(** ** C15: loading the file written by --update-config (option table part) reproduces every option
    value, from ANY previous option values, without a diagnostic; keywords and extensions are left
    alone by these lines *)
Theorem cfg_load_save_options : forall (target : list (bytes * value)) (st : cstate),
  wf_vals target -> map fst (vals st) = reg_names ->
  let r := cfg_load st (map (option_line iarf_names lineend_names tokenpos_names) target) in
  vals (fst r) = target /\ snd r = [] /\ kws (fst r) = kws st /\ exts (fst r) = exts st.
Proof.
  intros target st [Hn Hall] Hst. unfold cfg_load.
  apply (load_saved_options registry bool_alias iarf_alias lineend_alias tokenpos_alias
           iarf_names lineend_names tokenpos_names compat_names lang_names token_names
           inst_tables target [] (vals st) st 1%nat).
  - reflexivity.
  - rewrite Hst, Hn. reflexivity.
  - cbn [app]. rewrite Hn. exact reg_names_nodup.
  - rewrite Forall_forall in *. intros nv Hin. split.
    + apply name_ok_of_registered. rewrite <- Hn. apply in_map. exact Hin.
    + apply Hall. exact Hin.
Qed.

(** idempotence of save/load on the option table *)
Corollary cfg_save_load_save : forall st,
  wf_vals (vals st) ->
  let opt_lines := map (option_line iarf_names lineend_names tokenpos_names) (vals st) in
  map (option_line iarf_names lineend_names tokenpos_names) (vals (fst (cfg_load cfg_init opt_lines))) = opt_lines.
Proof.
  intros st Hwf opt_lines.
  destruct (cfg_load_save_options (vals st) cfg_init Hwf) as (H & _).
  - unfold cfg_init, init_state. cbn [vals]. rewrite map_map. reflexivity.
  - subst opt_lines. cbn zeta in H. rewrite H. reflexivity.
Qed.

(** the defaults are a well-formed table (non-vacuity) *)
Lemma defaults_wf_b :
  forallb (fun o => match lookup_kind registry (o_name o) with
                    | Some k => wf_value iarf_names lineend_names tokenpos_names k (o_def o)
                    | None => false end) registry = true.
Proof. vm_compute. reflexivity. Qed.

Theorem defaults_wf : wf_vals (vals cfg_init).
Proof.
  split.
  - unfold cfg_init, init_state. cbn [vals]. rewrite map_map. reflexivity.
  - unfold cfg_init, init_state. cbn [vals]. apply Forall_forall. intros nv Hin.
    apply in_map_iff in Hin as (o & <- & Ho). cbn [fst snd].
    pose proof defaults_wf_b as H. rewrite forallb_forall in H. specialize (H o Ho).
    destruct (lookup_kind registry (o_name o)) as [k|]; [|discriminate]. exists k. auto.
Qed.

(** ** C16: the nl_max consistency guard *)
Definition num_val (st : cstate) (n : bytes) : Z :=
  match lookup_val (vals st) n with Some (VNum z) | Some (VUnum z) => z | _ => 0 end.
Definition s_nl_max : bytes := [110;108;95;109;97;120].
Definition too_big (st : cstate) : bool :=
  (0 <? num_val st s_nl_max) && existsb (fun o => num_val st o >? num_val st s_nl_max) nlmax_guard.

Theorem too_big_spec st :
  too_big st = true <->
  0 < num_val st s_nl_max /\ exists o, In o nlmax_guard /\ num_val st o > num_val st s_nl_max.
Proof.
  unfold too_big. rewrite andb_true_iff, existsb_exists, Z.ltb_lt. split.
  - intros [H (o & Ho & Hg)]. split; [exact H|]. exists o. split; [exact Ho|]. rewrite Z.gtb_ltb in Hg. apply Z.ltb_lt in Hg. lia.
  - intros [H (o & Ho & Hg)]. split; [exact H|]. exists o. split; [exact Ho|]. rewrite Z.gtb_ltb. apply Z.ltb_lt. lia.
Qed.

Lemma guard_options_registered :
  forallb (fun o => match lookup_kind registry o with Some (KUnum _) | Some (KNum _) => true | _ => false end)
          (s_nl_max :: nlmax_guard) = true.
Proof. vm_compute. reflexivity. Qed.
