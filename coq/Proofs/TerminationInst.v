(** C06 over the GENERATED inventories of coq/Gen/Termination.v (every exit() call, every chunk-walk loop of /repo/src).
    The lists below are the reviewed exceptions; a new exit site with an undocumented status, a new silent non-zero
    exit, a new exit in the output phase or a new unprotected chunk-walk loop breaks a theorem. *)
From Coq Require Import List ZArith Bool Arith.
From UV Require Import Model.Config Gen.Termination.
Import ListNotations.
Local Open Scope Z_scope.

(** the documented statuses: sysexits.h names used by uncrustify, EXIT_SUCCESS/EXIT_FAILURE *)
Definition documented : list (list Z) := [
  [69;88;95;79;75];
  [69;88;95;85;83;65;71;69];
  [69;88;95;68;65;84;65;69;82;82];
  [69;88;95;78;79;73;78;80;85;84];
  [69;88;95;78;79;85;83;69;82];
  [69;88;95;78;79;72;79;83;84];
  [69;88;95;85;78;65;86;65;73;76;65;66;76;69];
  [69;88;95;83;79;70;84;87;65;82;69];
  [69;88;95;79;83;69;82;82];
  [69;88;95;79;83;70;73;76;69];
  [69;88;95;67;65;78;84;67;82;69;65;84];
  [69;88;95;73;79;69;82;82];
  [69;88;95;84;69;77;80;70;65;73;76];
  [69;88;95;80;82;79;84;79;67;79;76];
  [69;88;95;78;79;80;69;82;77];
  [69;88;95;67;79;78;70;73;71];
  [69;88;73;84;95;83;85;67;67;69;83;83];
  [69;88;73;84;95;70;65;73;76;85;82;69];
  [48];
  [49]
].

Definition status_of (e : list Z * list Z * list Z * bool * bool) : list Z := snd (fst (fst e)).
Definition file_of (e : list Z * list Z * list Z * bool * bool) : list Z := fst (fst (fst (fst e))).
Definition func_of (e : list Z * list Z * list Z * bool * bool) : list Z := snd (fst (fst (fst e))).
Definition diag_of (e : list Z * list Z * list Z * bool * bool) : bool := snd (fst e).
Definition outphase_of (e : list Z * list Z * list Z * bool * bool) : bool := snd e.

Definition is_success (s : list Z) : bool := beqb s [69;88;95;79;75] || beqb s [69;88;73;84;95;83;85;67;67;69;83;83] || beqb s [48].

Theorem exit_statuses_documented : forallb (fun e => existsb (beqb (status_of e)) documented) exit_sites = true.
Proof. vm_compute. reflexivity. Qed.

(** non-zero exits without a LOG_FMT(LERR/LWARN)/fprintf(stderr)/usage_error in the 14 lines before them: reviewed *)
Definition silent_ok : list (list Z * list Z) := [
  (* space.cpp space_text: exit(EX_SOFTWARE) *)
  ([115;112;97;99;101;46;99;112;112], [115;112;97;99;101;95;116;101;120;116]);
  (* unc_tools.cpp rebuild_the_line: exit(EX_SOFTWARE) *)
  ([117;110;99;95;116;111;111;108;115;46;99;112;112], [114;101;98;117;105;108;100;95;116;104;101;95;108;105;110;101]);
  (* unc_tools.cpp dump_in: exit(EX_SOFTWARE) *)
  ([117;110;99;95;116;111;111;108;115;46;99;112;112], [100;117;109;112;95;105;110])
].
(*  space.cpp space_text: 'the av value is wrong' is logged with LSPACE only (unreachable: av is a 2-bit value);
    unc_tools.cpp rebuild_the_line / dump_in: debugging aids behind -ds/--dump-steps and the 'dump in' developer option *)

Definition silent_unreviewed : list (list Z * list Z) :=
  map (fun e => (file_of e, func_of e))
      (filter (fun e => negb (is_success (status_of e)) && negb (diag_of e)
                        && negb (existsb (fun j => beqb (fst j) (file_of e) && beqb (snd j) (func_of e)) silent_ok)) exit_sites).

Theorem nonzero_exits_are_diagnosed : silent_unreviewed = [].
Proof. vm_compute. reflexivity. Qed.

(** exit() calls in the output phase (text may already be on standard output): the three internal-error sites *)
Definition output_phase_ok : list (list Z) := [
  (* output_text: exit(EX_SOFTWARE) *)
  [111;117;116;112;117;116;95;116;101;120;116];
  (* calculate_comment_body_indent: exit(EX_SOFTWARE) *)
  [99;97;108;99;117;108;97;116;101;95;99;111;109;109;101;110;116;95;98;111;100;121;95;105;110;100;101;110;116];
  (* output_comment_multi: exit(EX_SOFTWARE) *)
  [111;117;116;112;117;116;95;99;111;109;109;101;110;116;95;109;117;108;116;105]
].
Definition output_phase_unreviewed : list (list Z) :=
  map func_of (filter (fun e => outphase_of e && negb (existsb (beqb (func_of e)) output_phase_ok)) exit_sites).

Theorem no_new_exit_in_output_phase : output_phase_unreviewed = [].
Proof. vm_compute. reflexivity. Qed.

(** chunk-walk loops whose condition neither tests for the null chunk nor is a positive type test: per function, the
    number of such loops that were reviewed *)
Definition open_loops_ok : list (list Z * nat) := [
  (* Chunk::IsNewlineBetween: walks from this chunk to a later chunk of the same list given by the caller *)
  ([67;104;117;110;107;58;58;73;115;78;101;119;108;105;110;101;66;101;116;119;101;101;110], 1%nat);
  (* EnumStructUnionParser::analyze_identifiers: bounded by chunk_is_between(m_start, m_end) *)
  ([69;110;117;109;83;116;114;117;99;116;85;110;105;111;110;80;97;114;115;101;114;58;58;97;110;97;108;121;122;101;95;105;100;101;110;116;105;102;105;101;114;115], 1%nat);
  (* EnumStructUnionParser::mark_enum_integral_type: bounded by chunk_is_between(m_start, m_end) *)
  ([69;110;117;109;83;116;114;117;99;116;85;110;105;111;110;80;97;114;115;101;114;58;58;109;97;114;107;95;101;110;117;109;95;105;110;116;101;103;114;97;108;95;116;121;112;101], 1%nat);
  (* EnumStructUnionParser::mark_extracorporeal_lvalues: walks to m_end, a chunk of the list *)
  ([69;110;117;109;83;116;114;117;99;116;85;110;105;111;110;80;97;114;115;101;114;58;58;109;97;114;107;95;101;120;116;114;97;99;111;114;112;111;114;101;97;108;95;108;118;97;108;117;101;115], 1%nat);
  (* EnumStructUnionParser::mark_template_args: 'while (true)' with a break on the matching angle / null chunk *)
  ([69;110;117;109;83;116;114;117;99;116;85;110;105;111;110;80;97;114;115;101;114;58;58;109;97;114;107;95;116;101;109;112;108;97;116;101;95;97;114;103;115], 1%nat);
  (* EnumStructUnionParser::parse: bounded by chunk_is_between(m_start, m_end) *)
  ([69;110;117;109;83;116;114;117;99;116;85;110;105;111;110;80;97;114;115;101;114;58;58;112;97;114;115;101], 1%nat);
  (* EnumStructUnionParser::try_pre_identify_type: bounded by chunk_is_between(m_start, m_end) *)
  ([69;110;117;109;83;116;114;117;99;116;85;110;105;111;110;80;97;114;115;101;114;58;58;116;114;121;95;112;114;101;95;105;100;101;110;116;105;102;121;95;116;121;112;101], 1%nat);
  (* align_same_func_call_params: walks back from a chunk to an earlier chunk of the same list *)
  ([97;108;105;103;110;95;115;97;109;101;95;102;117;110;99;95;99;97;108;108;95;112;97;114;97;109;115], 1%nat);
  (* check_template_arg: walks from start to end, both given by the caller from the same list *)
  ([99;104;101;99;107;95;116;101;109;112;108;97;116;101;95;97;114;103], 2%nat);
  (* find_non_storage_siblings: is_storage_keyword() is a positive test on the chunk type (false on the null chunk) *)
  ([102;105;110;100;95;110;111;110;95;115;116;111;114;97;103;101;95;115;105;98;108;105;110;103;115], 2%nat);
  (* handle_cpp_lambda: walks between two chunks of the same list *)
  ([104;97;110;100;108;101;95;99;112;112;95;108;97;109;98;100;97], 1%nat);
  (* handle_cs_array_type: walks between two chunks of the same list *)
  ([104;97;110;100;108;101;95;99;115;95;97;114;114;97;121;95;116;121;112;101], 1%nat);
  (* handle_oc_block_literal: walks between two chunks of the same list *)
  ([104;97;110;100;108;101;95;111;99;95;98;108;111;99;107;95;108;105;116;101;114;97;108], 1%nat);
  (* handle_oc_message_decl: 'while (true)' with breaks on null chunk / terminator *)
  ([104;97;110;100;108;101;95;111;99;95;109;101;115;115;97;103;101;95;100;101;99;108], 1%nat);
  (* indent_text: positive test on the NEXT chunk (IsParenClose), false on the null chunk; do-while over the frame stack that only
     repeats while the stack shrank; do-while 'pc != tmp' towards a later chunk of the same list (ends at the null chunk if tmp is null) *)
  ([105;110;100;101;110;116;95;116;101;120;116], 3%nat);
  (* mark_function: walks from the open paren to its matching close paren found before *)
  ([109;97;114;107;95;102;117;110;99;116;105;111;110], 1%nat);
  (* mark_variable_definition: go_on() is false on the null chunk *)
  ([109;97;114;107;95;118;97;114;105;97;98;108;101;95;100;101;102;105;110;105;116;105;111;110], 1%nat);
  (* match_variable_start: bounded by chunk_is_after() and a target chunk of the same list *)
  ([109;97;116;99;104;95;118;97;114;105;97;98;108;101;95;115;116;97;114;116], 1%nat);
  (* process_return_or_throw: steps back over trailing comments; IsComment() on the chunk fetched is false on the null chunk *)
  ([112;114;111;99;101;115;115;95;114;101;116;117;114;110;95;111;114;95;116;104;114;111;119], 1%nat);
  (* Chunk::GetPpStart: do-while: IsPreproc() on the chunk just fetched is false on the null chunk *)
  ([67;104;117;110;107;58;58;71;101;116;80;112;83;116;97;114;116], 1%nat);
  (* nl_create_list_liner: do-while 'tmp != closing': closing was found walking forward from the same chunk, or is the null chunk, which the walk reaches *)
  ([110;108;95;99;114;101;97;116;101;95;108;105;115;116;95;108;105;110;101;114], 1%nat);
  (* EnumStructUnionParser::mark_pointer_types: do-while: IsPointerReferenceOrQualifier() is a positive type test, false on the null chunk *)
  ([69;110;117;109;83;116;114;117;99;116;85;110;105;111;110;80;97;114;115;101;114;58;58;109;97;114;107;95;112;111;105;110;116;101;114;95;116;121;112;101;115], 1%nat);
  (* EnumStructUnionParser::mark_type: do-while: IsPointerOrReference() is a positive type test, false on the null chunk *)
  ([69;110;117;109;83;116;114;117;99;116;85;110;105;111;110;80;97;114;115;101;114;58;58;109;97;114;107;95;116;121;112;101], 1%nat);
  (* EnumStructUnionParser::try_post_identify_type: do-while bounded by chunk_is_between(m_start, m_end) *)
  ([69;110;117;109;83;116;114;117;99;116;85;110;105;111;110;80;97;114;115;101;114;58;58;116;114;121;95;112;111;115;116;95;105;100;101;110;116;105;102;121;95;116;121;112;101], 1%nat);
  (* newlines_if_for_while_switch_pre_blank_lines: positive test (IsNewline) on the chunk just fetched *)
  ([110;101;119;108;105;110;101;115;95;105;102;95;102;111;114;95;119;104;105;108;101;95;115;119;105;116;99;104;95;112;114;101;95;98;108;97;110;107;95;108;105;110;101;115], 1%nat)
].

Definition open_in (f : list Z) : nat :=
  length (filter (fun l => (snd l =? 2) && beqb (snd (fst (fst l))) f) chunk_loops).

Definition functions_with_open_loops : list (list Z) :=
  map (fun l => snd (fst (fst l))) (filter (fun l => snd l =? 2) chunk_loops).

Definition unreviewed_loops : list (list Z) :=
  filter (fun f => negb (existsb (fun j => beqb (fst j) f && Nat.leb (open_in f) (snd j)) open_loops_ok)) functions_with_open_loops.

Theorem chunk_walks_are_guarded : unreviewed_loops = [].
Proof. vm_compute. reflexivity. Qed.

(** no review is stale *)
Theorem reviewed_loops_exist : forallb (fun j => Nat.eqb (open_in (fst j)) (snd j)) open_loops_ok = true.
Proof. vm_compute. reflexivity. Qed.

(** for-loops whose increment walks the chunk list (for (...; cond; v = v->GetNext..())) and whose condition neither tests
    for the null chunk nor is a positive type test: per function, the number that were reviewed.  All are of the form
    'v != end' with an end point located before the loop; the dynamic part of the C06 check (truncated and mutated files
    under sanitizers) is what backs the reviews *)
Definition open_for_loops_ok : list (list Z * nat) := [
  (* EnumStructUnionParser::mark_where_clause: walks from where_start to where_end, found by a forward search *)
  ([69;110;117;109;83;116;114;117;99;116;85;110;105;111;110;80;97;114;115;101;114;58;58;109;97;114;107;95;119;104;101;114;101;95;99;108;97;117;115;101], 1%nat);
  (* add_func_header: walks from ref to 'after', the chunk GetNextNcNnl() returned for ref (null chunk included: the walk stops there) *)
  ([97;100;100;95;102;117;110;99;95;104;101;97;100;101;114], 1%nat);
  (* add_msg_header: walks from ref to 'after', the chunk GetNextNcNnl() returned for ref *)
  ([97;100;100;95;109;115;103;95;104;101;97;100;101;114], 1%nat);
  (* add_parens_between: walks from the first chunk behind the inserted '(' to last_prev, a non-comment chunk in front of 'last' located by GetPrevNcNnl *)
  ([97;100;100;95;112;97;114;101;110;115;95;98;101;116;119;101;101;110], 1%nat);
  (* collapse_empty_body: walks from an open brace to its close brace; unmatched braces are refused before the newline passes run (exit 74) *)
  ([99;111;108;108;97;112;115;101;95;101;109;112;116;121;95;98;111;100;121], 1%nat);
  (* do_symbol_check: walks from pc to the semicolon found by a forward search from pc *)
  ([100;111;95;115;121;109;98;111;108;95;99;104;101;99;107], 1%nat);
  (* handle_cs_square_stmt: walks from the open square to its matching close square *)
  ([104;97;110;100;108;101;95;99;115;95;115;113;117;97;114;101;95;115;116;109;116], 1%nat);
  (* handle_oc_block_literal: walks between matched bracket chunks located before the loop *)
  ([104;97;110;100;108;101;95;111;99;95;98;108;111;99;107;95;108;105;116;101;114;97;108], 2%nat);
  (* handle_oc_md_type: walks from the open to the matching close parenthesis *)
  ([104;97;110;100;108;101;95;111;99;95;109;100;95;116;121;112;101], 1%nat);
  (* handle_oc_message_send: walks between matched bracket chunks located before the loop *)
  ([104;97;110;100;108;101;95;111;99;95;109;101;115;115;97;103;101;95;115;101;110;100], 2%nat);
  (* mark_cpp_lambda: walks from the lambda's square bracket to its closing brace, both located before *)
  ([109;97;114;107;95;99;112;112;95;108;97;109;98;100;97], 1%nat);
  (* mod_case_brace_add: walks between the two brace chunks just inserted into the list *)
  ([109;111;100;95;99;97;115;101;95;98;114;97;99;101;95;97;100;100], 1%nat);
  (* mod_case_brace_remove: walks from the open brace to the close brace of one case block, both located before the loop *)
  ([109;111;100;95;99;97;115;101;95;98;114;97;99;101;95;114;101;109;111;118;101], 2%nat);
  (* newline_add_between: walks from start to end; callers pass two chunks of one list with start in front of end (checked by IsNullChunk tests before the loop) *)
  ([110;101;119;108;105;110;101;95;97;100;100;95;98;101;116;119;101;101;110], 1%nat);
  (* newline_after_return: walks from the semicolon to 'after', the chunk GetNextNcNnl() returned for it *)
  ([110;101;119;108;105;110;101;95;97;102;116;101;114;95;114;101;116;117;114;110], 1%nat);
  (* newlines_cleanup_braces: walks from pc to 'end', found by a forward search from pc *)
  ([110;101;119;108;105;110;101;115;95;99;108;101;97;110;117;112;95;98;114;97;99;101;115], 1%nat);
  (* process_return_or_throw: walks from next to cpar, the closing parenthesis matched before *)
  ([112;114;111;99;101;115;115;95;114;101;116;117;114;110;95;111;114;95;116;104;114;111;119], 2%nat)
].

Definition open_for_in (f : list Z) : nat :=
  length (filter (fun l => (snd l =? 2) && beqb (snd (fst (fst l))) f) for_loops).

Definition unreviewed_for_loops : list (list Z) :=
  filter (fun f => negb (existsb (fun j => beqb (fst j) f && Nat.leb (open_for_in f) (snd j)) open_for_loops_ok))
         (map (fun l => snd (fst (fst l))) (filter (fun l => snd l =? 2) for_loops)).

Theorem for_walks_are_guarded : unreviewed_for_loops = [].
Proof. vm_compute. reflexivity. Qed.

Theorem reviewed_for_loops_exist : forallb (fun j => Nat.eqb (open_for_in (fst j)) (snd j)) open_for_loops_ok = true.
Proof. vm_compute. reflexivity. Qed.

(** loops of the tokenizer that consume input characters (ctx.get()/ctx.expect()): every one tests ctx.more(), runs on a
    counter, or only continues on characters of a named class (peek() returns 0 at the end of the input) *)
Definition open_char_loops : list (list Z) :=
  map (fun l => snd (fst (fst l))) (filter (fun l => snd l =? 2) char_loops).

Theorem tokenizer_loops_are_guarded : open_char_loops = [].
Proof. vm_compute. reflexivity. Qed.
