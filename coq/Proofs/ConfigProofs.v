(** Proofs about Model/Config.v (any registry) — C16 part: a rejected value leaves the state alone and
    is diagnosed; an accepted value changes exactly the named option; accepted numbers are in range. *)
From Coq Require Import List ZArith Bool Arith Lia.
From UV Require Import Model.ConfigDefs Model.Config.
Import ListNotations.
Local Open Scope Z_scope.

Section Generic.
  Variable registry : list optdef.
  Variable bool_alias : list (bytes * bool).
  Variable iarf_alias lineend_alias tokenpos_alias : list (bytes * Z).
  Variable compat_names : list (bytes * option bytes * Z).
  Variable lang_names : list bytes.
  Variable token_names : list bytes.

  Notation read_value := (read_value registry bool_alias iarf_alias lineend_alias tokenpos_alias).
  Notation set_option := (set_option registry bool_alias iarf_alias lineend_alias tokenpos_alias).
  Notation process_line := (process_line registry bool_alias iarf_alias lineend_alias tokenpos_alias compat_names lang_names token_names).

  (** a value that is not accepted changes nothing at all and is diagnosed *)
  Theorem rejected_value_no_effect st name s k d :
    lookup_kind registry name = Some k ->
    read_value (vals st) name k s = (None, d) ->
    set_option st name s = (st, d).
  Proof. intros Hk Hr. unfold Config.set_option. rewrite Hk, Hr. reflexivity. Qed.

  Lemma validate_nil name b v : validate name b v = [] ->
    match b with Some (lo, hi) => lo <= v <= hi | None => True end.
  Proof.
    unfold validate. destruct b as [[lo hi]|]; [|trivial].
    destruct (v <? lo) eqn:E1; [discriminate|]. destruct (v >? hi) eqn:E2; [discriminate|].
    intros _. apply Z.ltb_ge in E1. rewrite Z.gtb_ltb in E2. apply Z.ltb_ge in E2. lia.
  Qed.

  Ltac crush :=
    repeat match goal with
    | |- context [match ?x with _ => _ end] => destruct x eqn:?
    end.

  Theorem rejected_value_diagnosed vs name k s d :
    read_value vs name k s = (None, d) -> d <> [].
  Proof.
    unfold Config.read_value. destruct k as [| | | |b|b|]; crush; intros H; inversion H; subst;
      try discriminate; try (intros X; apply app_eq_nil in X as [X1 X2]; discriminate).
  Qed.

  (** an accepted value changes exactly the named option: nothing else moves *)
  Theorem accepted_value_only_that_option st name s k v d :
    lookup_kind registry name = Some k ->
    read_value (vals st) name k s = (Some v, d) ->
    set_option st name s =
      ({| vals := set_val (vals st) name v; kws := kws st; exts := exts st; compat := compat st;
          includes := includes st |}, d).
  Proof. intros Hk Hr. unfold Config.set_option. rewrite Hk, Hr. reflexivity. Qed.

  Theorem unknown_option_no_effect st name s :
    lookup_kind registry name = None -> set_option st name s = (st, [DUnknownOption name]).
  Proof. intros H. unfold Config.set_option. rewrite H. reflexivity. Qed.

  (** accepted numbers respect the documented range *)
  Theorem accepted_unsigned_in_range vs name lo hi s z d :
    read_value vs name (KUnum (Some (lo, hi))) s = (Some (VUnum z), d) -> lo <= z <= hi.
  Proof.
    unfold Config.read_value. destruct (strtol s) as [v rest]. cbn [mk_num].
    destruct rest as [|c0 rest0].
    - destruct (validate name (Some (lo, hi)) v) eqn:Ev.
      + intros H. injection H as <- _. exact (validate_nil name _ _ Ev).
      + crush; intros H; inversion H; subst;
          match goal with E : validate _ _ _ = [] |- _ => exact (validate_nil name _ _ E) end.
    - crush; intros H; inversion H; subst;
        match goal with E : validate _ _ _ = [] |- _ => exact (validate_nil name _ _ E) end.
  Qed.

  Theorem accepted_signed_in_range vs name lo hi s z d :
    read_value vs name (KNum (Some (lo, hi))) s = (Some (VNum z), d) -> lo <= z <= hi.
  Proof.
    unfold Config.read_value. destruct (strtol s) as [v rest]. cbn [mk_num].
    destruct rest as [|c0 rest0].
    - destruct (validate name (Some (lo, hi)) v) eqn:Ev.
      + intros H. injection H as <- _. exact (validate_nil name _ _ Ev).
      + crush; intros H; inversion H; subst;
          match goal with E : validate _ _ _ = [] |- _ => exact (validate_nil name _ _ E) end.
    - crush; intros H; inversion H; subst;
        match goal with E : validate _ _ _ = [] |- _ => exact (validate_nil name _ _ E) end.
  Qed.

  (** malformed lines (quoting errors, missing arguments) change nothing *)
  Theorem malformed_line_no_effect st line :
    (split_args line = SUnterminated \/ split_args line = SUnexpected) ->
    fst (process_line st line) = st.
  Proof. intros [H|H]; unfold Config.process_line; rewrite H; reflexivity. Qed.
End Generic.
