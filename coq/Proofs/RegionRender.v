(** The output stage on a disabled region: IGNORED chunks are written raw, the NEWLINE chunks between them write
    exactly their count of line breaks, and the writer is left in the same state whatever the texts were. *)
From Coq Require Import List ZArith Bool Arith Lia.
From UV Require Import Model.Render Proofs.RenderProofs.
Import ListNotations.
Local Open Scope Z_scope.

Section RegionRender.
  Variable o : ropts.

  Lemma rev_rep {A} (a : A) n : rev (repeat a n) = repeat a n.
  Proof.
    induction n as [|n IH]; [reflexivity|]. cbn [repeat rev]. rewrite IH.
    clear IH. induction n as [|n IH]; [reflexivity|]. cbn. f_equal. exact IH.
  Qed.

  Lemma add_raw_spec t : Forall (fun c => 0 <= c) t -> forall s,
    out (add_raw s t) = rev (map Raw t) ++ out s /\ spaces (add_raw s t) = spaces s /\
    last_char (add_raw s t) = last_char s /\ trailspace (add_raw s t) = trailspace s /\
    tab_as_space (add_raw s t) = tab_as_space s /\ column (add_raw s t) = column s /\ did_newline (add_raw s t) = did_newline s.
  Proof.
    unfold add_raw. induction 1 as [|c t Hc _ IH]; intros s; cbn [fold_left map rev app].
    - repeat split.
    - replace (c <? 0) with false by (symmetry; apply Z.ltb_ge; exact Hc).
      destruct (IH (emit s (Raw c))) as (A & B & C & D & E & F & G).
      rewrite A, B, C, D, E, F, G. cbn [emit out spaces last_char trailspace tab_as_space column did_newline].
      rewrite <- app_assoc. repeat split.
  Qed.

  Lemma newline_loop_quiet n : forall first c s,
    quiet s -> spaces s = 0 -> nl_col c <= 1 ->
    let s' := newline_loop o n first c s in
    out s' = repeat NL n ++ out s /\ spaces s' = 0 /\ quiet s'.
  Proof.
    induction n as [|n IH]; intros first c s Hq H0 Hnc; cbn [newline_loop]; [cbn; auto|].
    replace (1 <? nl_col c) with false by (symmetry; apply Z.ltb_ge; exact Hnc). rewrite andb_false_r.
    destruct (add_char_nl o s Hq H0) as (A & B & C & D & E). cbn zeta in *.
    assert (Hq' : quiet (add_char o s 10 false)).
    { unfold quiet. rewrite B, C, D, E. repeat split; try lia; try reflexivity; try discriminate. }
    destruct (IH false c _ Hq' B Hnc) as (A' & B' & C'). cbn zeta in *.
    rewrite A', A. split; [apply rep_mid|]. split; [exact B'|exact C'].
  Qed.

  (** the chunks of a disabled region as the output stage sees them: IGNORED chunks, NEWLINE chunks and chunks
      without text (virtual braces, virtual semicolons), in any order *)
  Inductive item := IText (t : list Z) | IBreaks (n : nat) | IEmpty.

  Inductive is_region : list chunk -> list item -> Prop :=
  | reg_nil : is_region [] []
  | reg_ign c rest its :
      ck c = CKIgnored -> Forall (fun x => 0 <= x) (text c) ->
      is_region rest its -> is_region (c :: rest) (IText (text c) :: its)
  | reg_nl c n rest its :
      ck c = CKNewline -> nl_count c = Z.of_nat n -> nl_col c <= 1 ->
      is_region rest its -> is_region (c :: rest) (IBreaks n :: its)
  | reg_empty c rest its :
      ck c = CKOther -> text c = [] ->
      is_region rest its -> is_region (c :: rest) (IEmpty :: its).

  Definition item_syms (i : item) : list sym :=
    match i with IText t => map Raw t | IBreaks n => repeat NL n | IEmpty => [] end.
  Definition region_syms (its : list item) : list sym := flat_map item_syms its.

  Theorem region_render l its : is_region l its -> forall rp s,
    quiet s -> spaces s = 0 ->
    let s' := render_loop o rp l s in
    out s' = rev (region_syms its) ++ out s /\ spaces s' = 0 /\ quiet s'.
  Proof.
    induction 1 as [|c rest its Hk Ht _ IH|c n rest its Hk Hn Hc _ IH|c rest its Hk Ht _ IH]; intros rp s Hq H0; cbn [render_loop].
    - cbn. auto.
    - set (s0 := set_flags s (trailspace s) false).
      assert (Hq0 : quiet s0) by (destruct Hq as (A & B & C & _); repeat split; assumption).
      destruct (add_raw_spec (text c) Ht s0) as (A & B & C & D & E & _ & _).
      set (s1 := add_raw s0 (text c)) in *.
      assert (R1 : render_chunk o rp c s = s1) by (unfold render_chunk; rewrite Hk; reflexivity).
      assert (Hq1 : quiet s1) by (unfold quiet; rewrite B, C, D, E; exact Hq0).
      assert (H1 : spaces s1 = 0) by (rewrite B; exact H0).
      destruct (IH (c :: rp) s1 Hq1 H1) as (A' & B' & C'). cbn zeta in *.
      rewrite R1, A'. split; [|split; [exact B'|exact C']].
      rewrite A. change (out s0) with (out s). unfold region_syms. cbn [flat_map item_syms].
      fold (region_syms its). rewrite rev_app_distr, <- app_assoc. reflexivity.
    - set (s2 := set_flags s (trailspace s) false).
      assert (Hq2 : quiet s2) by (destruct Hq as (X & Y & Z0 & _); repeat split; assumption).
      destruct (newline_loop_quiet n true c s2 Hq2 H0 Hc) as (A' & B' & C'). cbn zeta in *.
      set (s3 := after_newline (newline_loop o n true c s2)).
      assert (R2 : render_chunk o rp c s = s3) by (unfold render_chunk; rewrite Hk, Hn, Nat2Z.id; reflexivity).
      assert (Hq3 : quiet s3) by exact C'.
      destruct (IH (c :: rp) s3 Hq3 B') as (A'' & B'' & C''). cbn zeta in *.
      rewrite R2, A''. split; [|split; [exact B''|exact C'']].
      change (out s3) with (out (newline_loop o n true c s2)). rewrite A'. change (out s2) with (out s).
      unfold region_syms. cbn [flat_map item_syms]. fold (region_syms its).
      rewrite rev_app_distr, <- app_assoc, rev_rep. reflexivity.
    - set (s2 := set_flags s (trailspace s) false).
      assert (Hq2 : quiet s2) by (destruct Hq as (X & Y & Z0 & _); repeat split; assumption).
      assert (R3 : render_chunk o rp c s = s2) by (unfold render_chunk; rewrite Hk, Ht; reflexivity).
      destruct (IH (c :: rp) s2 Hq2 H0) as (A & B & C). cbn zeta in *.
      rewrite R3, A. split; [|split; [exact B|exact C]]. reflexivity.
  Qed.

  (** the normal form the byte-level statement is about: every text followed by at least one line break *)
  Fixpoint drop_empty (its : list item) : list item :=
    match its with
    | [] => []
    | IEmpty :: r => drop_empty r
    | i :: r => i :: drop_empty r
    end.

  Definition alternate (ps : list (list Z * nat)) : list item :=
    flat_map (fun p => [IText (fst p); IBreaks (snd p)]) ps.

  Lemma region_syms_drop its : region_syms (drop_empty its) = region_syms its.
  Proof.
    induction its as [|i its IH]; [reflexivity|]. destruct i; cbn [drop_empty]; unfold region_syms in *; cbn [flat_map item_syms app];
      rewrite ?IH; reflexivity.
  Qed.

  (** the realised bytes: each region line, its terminator(s); nothing else *)
  Lemma realise_region nl ps :
    realise nl (region_syms (alternate ps)) = flat_map (fun p => fst p ++ concat (repeat nl (snd p))) ps.
  Proof.
    unfold realise, region_syms, alternate. induction ps as [|[t n] ps IH]; [reflexivity|].
    cbn [flat_map fst snd app item_syms]. rewrite !flat_map_app.
    rewrite <- app_assoc. f_equal; [|f_equal].
    - induction t as [|c t IHt]; [reflexivity|]. cbn. f_equal. exact IHt.
    - induction n as [|n IHn]; [reflexivity|]. cbn. f_equal. exact IHn.
    - exact IH.
  Qed.
End RegionRender.
