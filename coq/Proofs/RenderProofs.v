(** Proofs about Model/Render.v: what the writer can emit (C08 output side, C17 tab hygiene),
    line-break runs (C20), column realisation (C18).  No axioms. *)
From Coq Require Import List ZArith Bool Arith Lia.
From UV Require Import Model.Render.
Import ListNotations.
Local Open Scope Z_scope.
Ltac Zify.zify_post_hook ::= Z.div_mod_to_equations.

(** [ext P s s']: [s'] extends the output of [s] by symbols that all satisfy [P] *)
Definition ext (P : sym -> Prop) (s s' : wstate) : Prop :=
  exists l, out s' = l ++ out s /\ Forall P l.

Lemma ext_refl P s : ext P s s.
Proof. exists []. split; [reflexivity|constructor]. Qed.

Lemma ext_trans P s1 s2 s3 : ext P s1 s2 -> ext P s2 s3 -> ext P s1 s3.
Proof.
  intros (l1 & E1 & F1) (l2 & E2 & F2). exists (l2 ++ l1). split.
  - rewrite E2, E1, app_assoc. reflexivity.
  - apply Forall_app. split; assumption.
Qed.

Lemma ext_same_out P s s' : out s' = out s -> ext P s s'.
Proof. intros E. exists []. split; [exact E|constructor]. Qed.

Section Emission.
  Variable o : ropts.
  Variable P : sym -> Prop.
  Variable okc : Z -> Prop.                 (* characters that may be written *)
  Hypothesis HNL : P NL.
  Hypothesis H32 : P (Ch 32).
  Hypothesis Hch : forall c, okc c -> c <> 10 -> c <> 13 -> P (Ch c).

  Lemma ext_add_spaces s : ext P s (add_spaces s).
  Proof.
    exists (repeat (Ch 32) (Z.to_nat (spaces s))). split; [reflexivity|].
    apply Forall_forall. intros x Hx. apply repeat_spec in Hx. subst. exact H32.
  Qed.

  Lemma ext_cr_fixup s ch : ext P s (cr_fixup s ch).
  Proof.
    unfold cr_fixup. destruct ((last_char s =? 13) && negb (ch =? 10)); [|apply ext_refl].
    exists [NL]. split; [reflexivity|]. constructor; [exact HNL|constructor].
  Qed.

  Lemma ext_add_char1 s ch : okc ch -> ext P s (add_char1 o s ch).
  Proof.
    intros Hok. unfold add_char1.
    eapply ext_trans; [apply (ext_cr_fixup s ch)|].
    set (s1 := cr_fixup s ch).
    destruct (ch =? 10) eqn:E10.
    - eapply ext_trans; [apply (ext_add_spaces s1)|].
      exists [NL]. split; [reflexivity|]. constructor; [exact HNL|constructor].
    - destruct (ch =? 13) eqn:E13; [apply ext_same_out; reflexivity|].
      destruct ((ch =? 32) && negb (trailspace s1)); [apply ext_same_out; reflexivity|].
      eapply ext_trans; [apply (ext_add_spaces s1)|].
      exists [Ch ch]. split; [reflexivity|]. constructor; [|constructor].
      apply Hch; [exact Hok| |]; apply Z.eqb_neq; assumption.
  Qed.

  Hypothesis Hok32 : okc 32.

  Lemma ext_space_n n : forall s, ext P s (space_n o s n).
  Proof.
    unfold space_n. induction n as [|n IH]; intros s; cbn [repeat fold_left]; [apply ext_refl|].
    eapply ext_trans; [apply ext_add_char1; exact Hok32|apply IH].
  Qed.

  Lemma ext_add_char s ch lit : okc ch -> ext P s (add_char o s ch lit).
  Proof.
    intros Hok. unfold add_char.
    destruct ((ch =? 10) || (ch =? 13)); [apply ext_add_char1; exact Hok|].
    destruct ((ch =? 9) && tab_as_space s).
    { eapply ext_trans; [apply ext_cr_fixup|apply ext_space_n]. }
    destruct (negb lit && (ch =? 9) && (last_char s =? 32) && (eff_iwt o =? 0)); [apply ext_space_n|].
    apply ext_add_char1. exact Hok.
  Qed.

  Lemma ext_add_text t lit : Forall okc t -> forall s, ext P s (add_text o s t lit).
  Proof.
    unfold add_text. induction 1 as [|c t Hc _ IH]; intros s; cbn [fold_left]; [apply ext_refl|].
    eapply ext_trans; [apply ext_add_char; exact Hc|apply IH].
  Qed.

  Lemma ext_set_did_newline s b : ext P s (set_did_newline s b).
  Proof. apply ext_same_out. reflexivity. Qed.

  Lemma ext_tabs_loop (Hok9 : okc 9) fuel : forall s col, ext P s (tabs_loop o fuel s col).
  Proof.
    induction fuel as [|f IH]; intros s col; cbn [tabs_loop]; [apply ext_refl|].
    destruct (next_tab_column o (column s) <=? col); [|apply ext_refl].
    eapply ext_trans; [apply ext_add_char; exact Hok9|apply IH].
  Qed.

  (** [allow_tabs = true] needs tabs to be writable *)
  Lemma ext_output_to_column s col allow : (allow = true -> okc 9) -> ext P s (output_to_column o s col allow).
  Proof.
    intros Hallow. unfold output_to_column.
    eapply ext_trans; [apply (ext_set_did_newline s false)|].
    destruct allow; [|apply ext_space_n].
    eapply ext_trans; [apply ext_tabs_loop; apply Hallow; reflexivity|apply ext_space_n].
  Qed.
End Emission.

(** ** C08 (output side): add_char never writes a bare CR or LF character, whatever it is given *)
Definition clean (x : sym) : Prop := match x with Ch c => c <> 10 /\ c <> 13 | _ => True end.

Lemma clean_add_char o s ch lit : ext clean s (add_char o s ch lit).
Proof.
  apply (ext_add_char o clean (fun _ => True)); try exact I; try (cbn; lia);
    try (intros c _ H1 H2; cbn; auto).
Qed.

Lemma clean_output_to_column o s col allow : ext clean s (output_to_column o s col allow).
Proof.
  apply (ext_output_to_column o clean (fun _ => True)); try exact I; try (cbn; lia); auto;
    try (intros c _ H1 H2; cbn; auto).
Qed.

Lemma clean_add_text o t lit s : ext clean s (add_text o s t lit).
Proof.
  apply (ext_add_text o clean (fun _ => True)); try exact I; try (cbn; lia);
    try (intros c _ H1 H2; cbn; auto); try (apply Forall_forall; intros; exact I).
Qed.

Lemma clean_add_raw t : forall s, ext clean s (add_raw s t).
Proof.
  unfold add_raw. induction t as [|c t IH]; intros s; cbn [fold_left]; [apply ext_refl|].
  eapply ext_trans; [|apply IH].
  destruct (c <? 0); [apply ext_refl|]. exists [Raw c]. split; [reflexivity|]. constructor; [exact I|constructor].
Qed.

Lemma clean_newline_loop o n : forall first c s, ext clean s (newline_loop o n first c s).
Proof.
  induction n as [|n IH]; intros first c s; cbn [newline_loop]; [apply ext_refl|].
  eapply ext_trans; [|apply IH].
  eapply ext_trans; [|apply clean_add_char].
  destruct (negb first && (1 <? nl_col c)); [apply clean_output_to_column|apply ext_refl].
Qed.

Lemma clean_render_other o prev c s : ext clean s (render_other o prev c s).
Proof.
  unfold render_other.
  set (s0 := set_flags s (is_string_multi c) false).
  match goal with |- ext _ _ (let '(s1, allow) := ?X in _) => destruct X as [s1 allow] eqn:EX end.
  assert (E1 : ext clean s s1).
  { apply (ext_trans _ _ s0); [apply ext_same_out; reflexivity|].
    destruct (did_newline s0).
    - injection EX as <- _.
      match goal with |- context [if ?b then _ else _] => destruct b end; [|apply ext_refl].
      match goal with |- context [if ?b then _ else _] => destruct b end; [|apply ext_refl].
      apply clean_output_to_column.
    - injection EX as <- _. apply ext_refl. }
  set (s2 := output_to_column o s1 (col c) allow).
  set (s3 := add_text o s2 (text c) (is_string c)).
  set (s4 := if is_pp_define c && force_tab_after_define o then add_char o s3 9 false else s3).
  apply (ext_trans _ _ s1); [exact E1|].
  apply (ext_trans _ _ s2); [apply clean_output_to_column|].
  apply (ext_trans _ _ s3); [apply clean_add_text|].
  apply (ext_trans _ _ s4); [subst s4; destruct (is_pp_define c && force_tab_after_define o); [apply clean_add_char|apply ext_refl]|].
  apply ext_same_out. reflexivity.
Qed.

Lemma clean_render_nlcont o rp c s : ext clean s (render_nlcont o rp c s).
Proof.
  unfold render_nlcont.
  match goal with |- ext _ _ (after_newline (add_char _ (add_char _ ?s1 92 false) 10 false)) => set (sx := s1) end.
  apply (ext_trans _ _ sx); [subst sx; apply clean_output_to_column|].
  apply (ext_trans _ _ (add_char o sx 92 false)); [apply clean_add_char|].
  apply (ext_trans _ _ (add_char o (add_char o sx 92 false) 10 false)); [apply clean_add_char|].
  apply ext_same_out. reflexivity.
Qed.

Lemma clean_render_chunk o rp c s : ext clean s (render_chunk o rp c s).
Proof.
  unfold render_chunk.
  set (s0 := set_flags s (trailspace s) false).
  assert (E0 : ext clean s s0) by (apply ext_same_out; reflexivity).
  destruct (ck c).
  - apply (ext_trans _ _ s0); [exact E0|].
    apply (ext_trans _ _ (newline_loop o (Z.to_nat (nl_count c)) true c s0)); [apply clean_newline_loop|].
    apply ext_same_out. reflexivity.
  - apply (ext_trans _ _ s0); [exact E0|apply clean_render_nlcont].
  - exists [Seg (seg c)]. split; [reflexivity|]. constructor; [exact I|constructor].
  - apply (ext_trans _ _ s0); [exact E0|apply clean_add_raw].
  - destruct (text c) eqn:Et; [exact E0|].
    apply (ext_trans _ _ s0); [exact E0|apply clean_render_other].
  - apply ext_refl.
Qed.

Lemma clean_render_loop o l : forall rp s, ext clean s (render_loop o rp l s).
Proof.
  induction l as [|c l IH]; intros rp s; cbn [render_loop]; [apply ext_refl|].
  eapply ext_trans; [apply clean_render_chunk|apply IH].
Qed.

(** Every character the output stage writes through add_char is neither CR nor LF: every line break is
    an [NL] symbol, i.e. exactly the configured newline sequence, for EVERY chunk list and option set.
    (CR/LF bytes can otherwise only come from [Raw] — ignored-region text — and [Seg] — comment writers.) *)
Theorem render_eol_only_nl o last sp l : Forall clean (render o last sp l).
Proof.
  unfold render. destruct (clean_render_loop o l [] (init_wstate last sp)) as (x & E & F).
  rewrite E. cbn [init_wstate out]. rewrite app_nil_r. apply Forall_rev. exact F.
Qed.

(** crlf output = lf output with every line break replaced, when no raw/oracle segment carries a bare LF *)
Definition lf_free (x : sym) : Prop :=
  match x with Raw c => c <> 10 | Seg s => ~ In 10 s | _ => True end.

Theorem realise_commute nl l :
  Forall clean l -> Forall lf_free l ->
  realise nl l = flat_map (fun c => if c =? 10 then nl else [c]) (realise [10] l).
Proof.
  induction l as [|x l IH]; intros Hc Hl; [reflexivity|].
  inversion Hc as [|? ? Hx Hc']; inversion Hl as [|? ? Hy Hl']; subst.
  specialize (IH Hc' Hl'). unfold realise in *. cbn [flat_map]. rewrite flat_map_app. rewrite <- IH. f_equal.
  destruct x as [|c|c|s]; cbn.
  - rewrite app_nil_r. reflexivity.
  - destruct Hx as [H10 _]. replace (c =? 10) with false by (symmetry; apply Z.eqb_neq; exact H10). reflexivity.
  - cbn in Hy. replace (c =? 10) with false by (symmetry; apply Z.eqb_neq; exact Hy). reflexivity.
  - cbn in Hy. clear - Hy. induction s as [|a s IHs]; [reflexivity|]. cbn.
    replace (a =? 10) with false by (symmetry; apply Z.eqb_neq; intros ->; apply Hy; left; reflexivity).
    cbn. f_equal. apply IHs. intros X. apply Hy. right. exact X.
Qed.

(** ** C17: with tabs disabled everywhere, the writer emits no tab of its own *)
Definition no_tab_sym (x : sym) : Prop := x <> Ch 9.

Section NoTabs.
  Variable o : ropts.
  Hypothesis Hiwt : indent_with_tabs o = 0.
  Hypothesis Hpp : pp_indent_with_tabs o = 0 \/ pp_indent_with_tabs o = -1.
  Hypothesis Hawt : align_with_tabs o = false.
  Hypothesis Hakt : align_keep_tabs o = false.
  Hypothesis Hftd : force_tab_after_define o = false.

  Lemma ppiwt0 : ppiwt o = 0.
  Proof. unfold ppiwt. destruct Hpp as [H|H]; rewrite H; cbn; [reflexivity|exact Hiwt]. Qed.

  Let okc (c : Z) : Prop := c <> 9.

  Lemma nt_add_char s ch lit : ch <> 9 -> ext no_tab_sym s (add_char o s ch lit).
  Proof.
    intros H. apply (ext_add_char o no_tab_sym okc); unfold no_tab_sym, okc; try discriminate; try exact H.
    intros c Hc _ _ X. injection X as X. contradiction.
  Qed.

  Lemma nt_output_to_column s col : ext no_tab_sym s (output_to_column o s col false).
  Proof.
    apply (ext_output_to_column o no_tab_sym okc); unfold no_tab_sym, okc; try discriminate.
    intros c Hc _ _ X. injection X as X. contradiction.
  Qed.

  Lemma nt_add_text t lit s : Forall (fun c => c <> 9) t -> ext no_tab_sym s (add_text o s t lit).
  Proof.
    intros Ht. apply (ext_add_text o no_tab_sym okc); unfold no_tab_sym, okc; try discriminate; try exact Ht.
    intros c Hc _ _ X. injection X as X. contradiction.
  Qed.

  Lemma nt_add_raw t : forall s, ext no_tab_sym s (add_raw s t).
  Proof.
    unfold add_raw. induction t as [|c t IH]; intros s; cbn [fold_left]; [apply ext_refl|].
    eapply ext_trans; [|apply IH].
    destruct (c <? 0); [apply ext_refl|]. exists [Raw c]. split; [reflexivity|]. constructor; [discriminate|constructor].
  Qed.

  Lemma nt_newline_loop n : forall first c s, ext no_tab_sym s (newline_loop o n first c s).
  Proof.
    induction n as [|n IH]; intros first c s; cbn [newline_loop]; [apply ext_refl|].
    eapply ext_trans; [|apply IH].
    eapply ext_trans; [|apply nt_add_char; discriminate].
    destruct (negb first && (1 <? nl_col c)); [|apply ext_refl].
    rewrite ppiwt0, Hiwt. cbn. destruct (preproc c); apply nt_output_to_column.
  Qed.

  Lemma nt_render_nlcont rp c s : ext no_tab_sym s (render_nlcont o rp c s).
  Proof.
    unfold render_nlcont.
    match goal with |- ext _ _ (after_newline (add_char _ (add_char _ (output_to_column _ _ ?cv ?al) 92 false) 10 false)) =>
      set (colv := cv); assert (Hal : al = false) end.
    { rewrite ppiwt0, Hiwt. destruct (negb (was_aligned c)); [reflexivity|]. destruct (preproc c); reflexivity. }
    rewrite Hal.
    set (sx := output_to_column o s colv false).
    apply (ext_trans _ _ sx); [apply nt_output_to_column|].
    apply (ext_trans _ _ (add_char o sx 92 false)); [apply nt_add_char; discriminate|].
    apply (ext_trans _ _ (add_char o (add_char o sx 92 false) 10 false)); [apply nt_add_char; discriminate|].
    apply ext_same_out. reflexivity.
  Qed.

  Lemma nt_render_other prev c s :
    Forall (fun x => x <> 9) (text c) -> ext no_tab_sym s (render_other o prev c s).
  Proof.
    intros Ht. unfold render_other.
    set (s0 := set_flags s (is_string_multi c) false).
    rewrite ppiwt0, Hiwt, Hawt, Hakt, Hftd.
    change (0 =? 1) with false. change (0 =? 2) with false. change (0 =? 0) with true.
    rewrite !andb_false_r. cbn [orb andb negb].
    replace (is_comment_kind c && false) with false by (rewrite andb_false_r; reflexivity).
    destruct (did_newline s0).
    - set (s2 := output_to_column o s0 (col c) false).
      set (s3 := add_text o s2 (text c) (is_string c)).
      apply (ext_trans _ _ s0); [apply ext_same_out; reflexivity|].
      apply (ext_trans _ _ s2); [apply nt_output_to_column|].
      apply (ext_trans _ _ s3); [apply nt_add_text; exact Ht|].
      apply ext_same_out. reflexivity.
    - set (s2 := output_to_column o s0 (col c) false).
      set (s3 := add_text o s2 (text c) (is_string c)).
      apply (ext_trans _ _ s0); [apply ext_same_out; reflexivity|].
      apply (ext_trans _ _ s2); [apply nt_output_to_column|].
      apply (ext_trans _ _ s3); [apply nt_add_text; exact Ht|].
      apply ext_same_out. reflexivity.
  Qed.

  Definition texts_tab_free (l : list chunk) : Prop :=
    Forall (fun c => match ck c with CKOther => Forall (fun x => x <> 9) (text c) | _ => True end) l.

  Lemma nt_render_chunk rp c s :
    (match ck c with CKOther => Forall (fun x => x <> 9) (text c) | _ => True end) ->
    ext no_tab_sym s (render_chunk o rp c s).
  Proof.
    intros Hc. unfold render_chunk.
    set (s0 := set_flags s (trailspace s) false).
    assert (E0 : ext no_tab_sym s s0) by (apply ext_same_out; reflexivity).
    destruct (ck c).
    - apply (ext_trans _ _ s0); [exact E0|].
      apply (ext_trans _ _ (newline_loop o (Z.to_nat (nl_count c)) true c s0)); [apply nt_newline_loop|].
      apply ext_same_out. reflexivity.
    - apply (ext_trans _ _ s0); [exact E0|apply nt_render_nlcont].
    - exists [Seg (seg c)]. split; [reflexivity|]. constructor; [discriminate|constructor].
    - apply (ext_trans _ _ s0); [exact E0|apply nt_add_raw].
    - destruct (text c) eqn:Et; [exact E0|].
      apply (ext_trans _ _ s0); [exact E0|]. apply nt_render_other. rewrite Et. exact Hc.
    - apply ext_refl.
  Qed.

  Lemma nt_render_loop l : texts_tab_free l -> forall rp s, ext no_tab_sym s (render_loop o rp l s).
  Proof.
    induction 1 as [|c l Hc _ IH]; intros rp s; cbn [render_loop]; [apply ext_refl|].
    eapply ext_trans; [apply nt_render_chunk; exact Hc|apply IH].
  Qed.

  (** indent_with_tabs=0 (and the other tab-producing options off): the writer adds no tab at all; with
      tab-free chunk texts the only whitespace in the leading part of every line is the space character *)
  Theorem no_tabs_when_disabled last sp l :
    texts_tab_free l -> Forall no_tab_sym (render o last sp l).
  Proof.
    intros H. unfold render. destruct (nt_render_loop l H [] (init_wstate last sp)) as (x & E & F).
    rewrite E. cbn [init_wstate out]. rewrite app_nil_r. apply Forall_rev. exact F.
  Qed.
End NoTabs.

Lemma rep_mid {A} (a : A) n X : repeat a n ++ a :: X = repeat a (S n) ++ X.
Proof. induction n as [|n IH]; cbn; [reflexivity|]. f_equal. exact IH. Qed.

(** ** buffered spaces are virtual output: [all_out] *)
Definition all_out (s : wstate) : list sym := repeat (Ch 32) (Z.to_nat (spaces s)) ++ out s.

Definition quiet (s : wstate) : Prop :=      (* the state between ordinary characters *)
  0 <= spaces s /\ last_char s <> 13 /\ trailspace s = false /\ tab_as_space s = false.

Section AllOut.
  Variable o : ropts.

  Lemma add_char1_plain s ch :
    quiet s -> ch <> 10 -> ch <> 13 -> ch <> 9 ->
    let s' := add_char1 o s ch in
    all_out s' = Ch ch :: all_out s /\ column s' = column s + 1 /\ quiet s' /\
    last_char s' = ch /\ did_newline s' = did_newline s /\
    (ch <> 32 -> spaces s' = 0 /\ out s' = Ch ch :: all_out s).
  Proof.
    intros (Hsp & Hl & Hts & Htas) H10 H13 H9. unfold add_char1, cr_fixup.
    replace (last_char s =? 13) with false by (symmetry; apply Z.eqb_neq; exact Hl). cbn [andb].
    replace (ch =? 10) with false by (symmetry; apply Z.eqb_neq; exact H10).
    replace (ch =? 13) with false by (symmetry; apply Z.eqb_neq; exact H13).
    rewrite Hts. cbn [negb]. rewrite andb_true_r.
    destruct (ch =? 32) eqn:E32.
    - apply Z.eqb_eq in E32. subst ch. cbn. unfold all_out, quiet. cbn.
      replace (Z.to_nat (spaces s + 1)) with (S (Z.to_nat (spaces s))) by lia. cbn [repeat app].
      repeat split; try assumption; try lia; try discriminate; try (intros X; contradiction).
    - replace (ch =? 9) with false by (symmetry; apply Z.eqb_neq; exact H9).
      cbn. unfold all_out, quiet. cbn.
      repeat split; try assumption; try lia; try reflexivity.
  Qed.

  Lemma add_char_plain s ch lit :
    quiet s -> ch <> 10 -> ch <> 13 -> ch <> 9 -> add_char o s ch lit = add_char1 o s ch.
  Proof.
    intros _ H10 H13 H9. unfold add_char.
    replace (ch =? 10) with false by (symmetry; apply Z.eqb_neq; exact H10).
    replace (ch =? 13) with false by (symmetry; apply Z.eqb_neq; exact H13).
    replace (ch =? 9) with false by (symmetry; apply Z.eqb_neq; exact H9).
    cbn [orb andb]. rewrite andb_false_r. reflexivity.
  Qed.

  Definition plainc (c : Z) : Prop := c <> 9 /\ c <> 10 /\ c <> 13.

  Lemma add_text_plain t lit : Forall plainc t -> forall s, quiet s ->
    let s' := add_text o s t lit in
    all_out s' = rev (map Ch t) ++ all_out s /\ column s' = column s + Z.of_nat (length t) /\ quiet s' /\
    did_newline s' = did_newline s.
  Proof.
    unfold add_text. induction 1 as [|c t (H9 & H10 & H13) _ IH]; intros s Hq; cbn [fold_left].
    - cbn. repeat split; try apply Hq. lia.
    - rewrite add_char_plain by assumption.
      destruct (add_char1_plain s c Hq H10 H13 H9) as (A & B & C & _ & D & _).
      destruct (IH _ C) as (A' & B' & C' & D').
      cbn zeta in *. rewrite A', A, B', B, D', D. cbn [map rev length]. rewrite <- app_assoc. cbn [app].
      refine (conj eq_refl (conj _ (conj C' eq_refl))). lia.
  Qed.

  Lemma space_n_spec n : forall s, quiet s ->
    let s' := space_n o s n in
    all_out s' = repeat (Ch 32) n ++ all_out s /\ column s' = column s + Z.of_nat n /\ quiet s' /\
    out s' = out s /\ did_newline s' = did_newline s.
  Proof.
    unfold space_n. induction n as [|n IH]; intros s Hq; cbn [repeat fold_left].
    - cbn. repeat split; try apply Hq. lia.
    - destruct (add_char1_plain s 32 Hq) as (A & B & C & _ & D & _); try discriminate.
      assert (Eo : out (add_char1 o s 32) = out s).
      { unfold add_char1, cr_fixup. destruct Hq as (_ & Hl & Hts & _).
        replace (last_char s =? 13) with false by (symmetry; apply Z.eqb_neq; exact Hl). cbn. rewrite Hts. reflexivity. }
      destruct (IH _ C) as (A' & B' & C' & E' & D').
      cbn zeta in *. rewrite A', A, B', B, E', Eo, D', D.
      refine (conj _ (conj _ (conj C' (conj eq_refl eq_refl)))); [apply rep_mid|lia].
  Qed.

  (** advancing to a column without tabs only buffers spaces: nothing is written yet *)
  Theorem output_to_column_spaces s c :
    quiet s -> column s <= c ->
    let s' := output_to_column o s c false in
    all_out s' = repeat (Ch 32) (Z.to_nat (c - column s)) ++ all_out s /\ column s' = c /\ quiet s' /\
    out s' = out s /\ did_newline s' = false.
  Proof.
    intros Hq Hc. unfold output_to_column.
    set (s0 := set_did_newline s false).
    assert (Hq0 : quiet s0) by exact Hq.
    destruct (space_n_spec (Z.to_nat (c - column s0)) s0 Hq0) as (A & B & C & D & E).
    cbn zeta in *. change (column s0) with (column s) in *. change (all_out s0) with (all_out s) in *.
    change (out s0) with (out s) in *.
    refine (conj A (conj _ (conj C (conj D E)))). rewrite B. lia.
  Qed.

  (** ** C18/C17: a chunk that starts a line, indent_with_tabs = 0: exactly (column - 1) spaces, then the text *)
  Theorem first_chunk_on_line prev c s :
    indent_with_tabs o = 0 -> (pp_indent_with_tabs o = 0 \/ pp_indent_with_tabs o = -1) ->
    quiet s -> column s = 1 -> spaces s = 0 -> did_newline s = true ->
    1 <= col c -> Forall plainc (text c) -> is_string_multi c = false ->
    (is_pp_define c && force_tab_after_define o) = false -> is_comment_kind c = false ->
    let s' := render_other o prev c s in
    all_out s' = rev (map Ch (text c)) ++ repeat (Ch 32) (Z.to_nat (col c - 1)) ++ out s /\
    column s' = col c + Z.of_nat (length (text c)).
  Proof.
    intros Hiwt Hpp Hq Hcol Hsp Hdn Hc Ht Hsm Hpd Hck.
    assert (Hppiwt : ppiwt o = 0) by (unfold ppiwt; destruct Hpp as [H|H]; rewrite H; cbn; [reflexivity|exact Hiwt]).
    unfold render_other. rewrite Hsm.
    set (s0 := set_flags s false false).
    assert (Hq0 : quiet s0) by (destruct Hq as (A & B & _ & _); repeat split; assumption).
    change (did_newline s0) with (did_newline s). rewrite Hdn.
    rewrite Hppiwt, Hiwt, Hck, Hpd.
    change (0 =? 1) with false. change (0 =? 2) with false. rewrite !andb_false_r. cbn [orb andb].
    destruct (output_to_column_spaces s0 (col c) Hq0) as (A & B & C & D & E); [change (column s0) with (column s); lia|].
    cbn zeta in A, B, C, D, E.
    destruct (add_text_plain (text c) (is_string c) Ht _ C) as (A' & B' & C' & D').
    cbn zeta in A', B', C', D'.
    set (s3 := add_text o (output_to_column o s0 (col c) false) (text c) (is_string c)) in *.
    split.
    - unfold all_out at 1. cbn [spaces out set_flags set_did_newline].
      change (repeat (Ch 32) (Z.to_nat (spaces s3)) ++ out s3) with (all_out s3).
      rewrite A', A. unfold all_out. change (spaces s0) with (spaces s). change (out s0) with (out s).
      change (column s0) with (column s). rewrite Hsp, Hcol. cbn [Z.to_nat repeat app]. reflexivity.
    - cbn [column set_flags set_did_newline]. rewrite B', B. reflexivity.
  Qed.

  (** ** C20: a NEWLINE chunk writes exactly nl_count line breaks (no blank-line indentation requested) *)
  Lemma add_char_nl s : quiet s -> spaces s = 0 ->
    let s' := add_char o s 10 false in
    out s' = NL :: out s /\ spaces s' = 0 /\ last_char s' = 10 /\ trailspace s' = false /\ tab_as_space s' = false.
  Proof.
    intros (Hsp & Hl & Hts & Htas) H0. unfold add_char. cbn [Z.eqb orb]. unfold add_char1, cr_fixup.
    replace (last_char s =? 13) with false by (symmetry; apply Z.eqb_neq; exact Hl). cbn.
    rewrite H0. cbn. auto.
  Qed.

  Theorem newline_chunk_run n : forall first c s,
    quiet s -> spaces s = 0 -> nl_col c <= 1 ->
    let s' := newline_loop o n first c s in
    out s' = repeat NL n ++ out s /\ spaces s' = 0.
  Proof.
    induction n as [|n IH]; intros first c s Hq H0 Hnc; cbn [newline_loop]; [cbn; auto|].
    replace (1 <? nl_col c) with false by (symmetry; apply Z.ltb_ge; exact Hnc). rewrite andb_false_r.
    destruct (add_char_nl s Hq H0) as (A & B & C & D & E). cbn zeta in *.
    assert (Hq' : quiet (add_char o s 10 false)).
    { unfold quiet. rewrite B, C, D, E. repeat split; try lia; try reflexivity; try discriminate. }
    destruct (IH false c _ Hq' B Hnc) as (A' & B'). cbn zeta in *.
    rewrite A', A. split; [apply rep_mid|exact B'].
  Qed.
End AllOut.
