(** No trailing blanks (C17), for the whole chunk list, in the configurations that indent with blanks only:
    when no chunk text ends in a blank (contract K_textws), no NEWLINE chunk asks for blank-line indentation and no tab is
    forced behind a #define name, the writer never emits a blank or a tab directly in front of a line break. *)
From Coq Require Import List ZArith Bool Arith Lia.
From UV Require Import Model.Render Proofs.RenderProofs.
Import ListNotations.
Local Open Scope Z_scope.

Definition blank_sym (x : sym) : Prop := match x with Ch c => c = 32 \/ c = 9 | _ => False end.

(** [out] is kept most-recent-first: "no blank directly in front of a line break" reads NL :: blank :: _ there *)
Fixpoint ntb (o : list sym) : Prop :=
  match o with
  | [] => True
  | NL :: r => match r with x :: _ => ~ blank_sym x | [] => True end /\ ntb r
  | _ :: r => ntb r
  end.

Definition hd_ok (o : list sym) : Prop := match o with x :: _ => ~ blank_sym x | [] => True end.
Definition not_nl (x : sym) : Prop := x <> NL.

Lemma ntb_cons_other x r : not_nl x -> ntb (x :: r) = ntb r.
Proof. intros H. destruct x; try reflexivity. exfalso. apply H. reflexivity. Qed.

Lemma ntb_app a : forall b, Forall not_nl a -> ntb b -> ntb (a ++ b).
Proof.
  induction a as [|x a IH]; intros b Ha Hb; [exact Hb|].
  inversion Ha as [|? ? Hx Ha']; subst. cbn [app]. rewrite (ntb_cons_other x (a ++ b) Hx). apply IH; assumption.
Qed.

Lemma ntb_nl o : hd_ok o -> ntb o -> ntb (NL :: o).
Proof. intros H1 H2. cbn [ntb]. split; [destruct o; [exact I|exact H1]|exact H2]. Qed.

Lemma ntb_nls n : forall o, hd_ok o -> ntb o -> ntb (repeat NL n ++ o) /\ hd_ok (repeat NL n ++ o).
Proof.
  induction n as [|n IH]; intros o H1 H2; cbn [repeat app]; [split; assumption|].
  destruct (IH o H1 H2) as [A B]. split; [apply ntb_nl; assumption|cbn; intros []].
Qed.

Lemma spaces_not_nl n : Forall not_nl (repeat (Ch 32) n).
Proof. apply Forall_forall. intros x Hx. apply repeat_spec in Hx. subst. discriminate. Qed.

(** the reading of [ntb] on the output in writing order *)
Lemma ntb_spec : forall o, ntb o -> forall a b x, o = a ++ NL :: x :: b -> ~ blank_sym x.
Proof.
  induction o as [|y o IH]; intros H a b x E.
  - destruct a; discriminate.
  - destruct a as [|z a].
    + cbn [app] in E. injection E as -> ->. cbn [ntb] in H. exact (proj1 H).
    + cbn [app] in E. injection E as -> E. apply (IH (ltac:(destruct z; cbn [ntb] in H; [exact (proj2 H)|exact H|exact H|exact H])) a b x E).
Qed.

Section Trail.
  Variable o : ropts.
  Hypothesis Hiwt : indent_with_tabs o = 0.
  Hypothesis Hpp : ppiwt o = 0.
  Hypothesis Hawt : align_with_tabs o = false.
  Hypothesis Hakt : align_keep_tabs o = false.
  Hypothesis Hftd : force_tab_after_define o = false.

  (** the state between two chunks *)
  Definition B (s : wstate) : Prop :=
    spaces s = 0 /\ last_char s <> 13 /\ trailspace s = false /\ hd_ok (out s).

  Definition nonblank_end (t : list Z) : Prop := match rev t with c :: _ => c <> 32 | [] => True end.

  (** what K_textws and the configuration demand of a chunk *)
  Definition tr_ok (c : chunk) : Prop :=
    match ck c with
    | CKNewline => nl_col c <= 1
    | CKComment => seg_spaces c = 0 /\ seg_last c <> 13
    | CKOther => text c = [] \/ (Forall plainc (text c) /\ nonblank_end (text c) /\ is_string_multi c = false /\ is_comment_kind c = false)
    | _ => True
    end.

  Lemma start_quiet s : B s -> quiet (set_flags s (trailspace s) false) /\ spaces (set_flags s (trailspace s) false) = 0.
  Proof. intros (A & L & T & _). unfold quiet. cbn. rewrite A, T. repeat split; try assumption; lia. Qed.

  Lemma nl_loop_tr n : forall first c s, quiet s -> spaces s = 0 -> nl_col c <= 1 ->
    let s' := newline_loop o n first c s in
    out s' = repeat NL n ++ out s /\ spaces s' = 0 /\ last_char s' <> 13 /\ trailspace s' = false.
  Proof.
    induction n as [|n IH]; intros first c s Hq H0 Hc; cbn [newline_loop repeat app].
    - destruct Hq as (_ & L & T & _). repeat split; assumption.
    - replace (negb first && (1 <? nl_col c)) with false
        by (symmetry; apply andb_false_intro2; apply Z.ltb_ge; exact Hc).
      destruct (add_char_nl o s Hq H0) as (A & B0 & L & T & TS). cbn zeta in *.
      set (s1 := add_char o s 10 false) in *.
      assert (Hq1 : quiet s1) by (unfold quiet; rewrite B0, L, T, TS; repeat split; try lia; try discriminate).
      destruct (IH false c s1 Hq1 B0 Hc) as (A' & B' & L' & T'). cbn zeta in *.
      rewrite A', A. split; [rewrite rep_mid; reflexivity|]. repeat split; assumption.
  Qed.

  Lemma raw_tr t : forall s,
    let s' := add_raw s t in
    (exists l, out s' = l ++ out s /\ Forall not_nl l /\ Forall (fun x => ~ blank_sym x) l) /\
    spaces s' = spaces s /\ last_char s' = last_char s /\ trailspace s' = trailspace s.
  Proof.
    unfold add_raw. induction t as [|c t IH]; intros s; cbn [fold_left].
    - split; [exists []; repeat split; constructor|repeat split].
    - destruct (c <? 0); [apply IH|].
      destruct (IH (emit s (Raw c))) as ((l & E & F & G) & A & B0 & C). cbn zeta in *.
      split; [|repeat split; assumption].
      exists (l ++ [Raw c]). rewrite E. cbn [emit out]. rewrite <- app_assoc. split; [reflexivity|].
      split; apply Forall_app; split; try assumption; constructor; try constructor; try discriminate; intros [].
  Qed.

  Lemma hd_ok_app l o0 : Forall (fun x => ~ blank_sym x) l -> hd_ok o0 -> hd_ok (l ++ o0).
  Proof. intros Hl Ho. destruct l as [|x l]; [exact Ho|]. inversion Hl; subst. cbn. assumption. Qed.

  Lemma other_tr prev c s :
    quiet s -> spaces s = 0 -> hd_ok (out s) -> ntb (out s) ->
    Forall plainc (text c) -> text c <> [] -> nonblank_end (text c) -> is_string_multi c = false -> is_comment_kind c = false ->
    let s' := render_other o prev c s in
    B s' /\ ntb (out s').
  Proof.
    intros Hq H0 Hh Hn Ht Hne Hnb Hsm Hck. unfold render_other. rewrite Hsm, Hiwt, Hpp, Hawt, Hakt, Hck, Hftd.
    set (s0 := set_flags s false false).
    assert (Es0 : s0 = s).
    { destruct Hq as (_ & _ & T & TS). unfold s0, set_flags. destruct s; cbn in *. subst. reflexivity. }
    rewrite Es0. clear s0 Es0.
    change (0 =? 1) with false. change (0 =? 2) with false. change (0 =? 0) with true.
    rewrite !andb_false_r, !andb_false_l. cbn [orb negb andb].
    assert (Epair : (if did_newline s then (s, false) else (s, false)) = (s, false)) by (destruct (did_newline s); reflexivity).
    rewrite Epair. clear Epair.
    unfold output_to_column.
    set (sa := set_did_newline s false).
    assert (Hqa : quiet sa) by exact Hq.
    destruct (space_n_spec o (Z.to_nat (col c - column sa)) sa Hqa) as (A2 & _ & C2 & D2 & _). cbn zeta in *.
    set (s2 := space_n o sa (Z.to_nat (col c - column sa))) in *.
    destruct (add_text_plain o (text c) (is_string c) Ht s2 C2) as (A3 & _ & C3 & _). cbn zeta in *.
    set (s3 := add_text o s2 (text c) (is_string c)) in *.
    (* the last character of the text is not a blank: nothing is left pending *)
    destruct (rev (text c)) as [|ch tr] eqn:Er.
    { exfalso. apply Hne. apply (f_equal (@rev Z)) in Er. rewrite rev_involutive in Er. exact Er. }
    assert (Hch : ch <> 32) by (unfold nonblank_end in Hnb; rewrite Er in Hnb; exact Hnb).
    assert (Hpl : plainc ch).
    { rewrite Forall_forall in Ht. apply Ht. apply in_rev. rewrite Er. left. reflexivity. }
    assert (Em : rev (map Ch (text c)) = Ch ch :: map Ch tr) by (rewrite <- map_rev, Er; reflexivity).
    rewrite Em in A3. unfold all_out in A3 at 1.
    assert (Hs3 : spaces s3 = 0).
    { destruct C3 as (P3 & _). destruct (Z.to_nat (spaces s3)) eqn:En; [lia|].
      cbn [repeat app] in A3. injection A3 as E _. exfalso. apply Hch. congruence. }
    rewrite Hs3 in A3. cbn [Z.to_nat repeat app] in A3.
    assert (Ea : all_out sa = out s) by (unfold all_out; change (spaces sa) with (spaces s); rewrite H0; reflexivity).
    rewrite A2, Ea in A3.
    split.
    - unfold B. cbn [spaces last_char trailspace out set_flags set_did_newline].
      destruct C3 as (_ & L3 & _ & _). rewrite Hs3, A3. repeat split; try assumption.
      cbn. intros [E|E]; [exact (Hch E)|destruct Hpl as (H9 & _); exact (H9 E)].
    - cbn [out set_flags set_did_newline]. rewrite A3.
      change (Ch ch :: map Ch tr ++ repeat (Ch 32) (Z.to_nat (col c - column sa)) ++ out s)
        with ((Ch ch :: map Ch tr) ++ repeat (Ch 32) (Z.to_nat (col c - column sa)) ++ out s).
      apply ntb_app; [|apply ntb_app; [apply spaces_not_nl|exact Hn]].
      constructor; [discriminate|]. apply Forall_forall. intros x Hx. apply in_map_iff in Hx. destruct Hx as (z & <- & _). discriminate.
  Qed.

  Lemma nlcont_tr rp c s :
    quiet s -> spaces s = 0 -> hd_ok (out s) -> ntb (out s) ->
    let s' := render_nlcont o rp c s in
    B s' /\ ntb (out s').
  Proof.
    intros Hq H0 Hh Hn. unfold render_nlcont.
    match goal with |- context [output_to_column o s ?cv ?al] => set (colv := cv); set (allow := al) end.
    assert (Eal : allow = false).
    { unfold allow. destruct (was_aligned c); cbn [negb]; [|reflexivity].
      destruct (preproc c); [rewrite Hpp|rewrite Hiwt]; reflexivity. }
    rewrite Eal. unfold output_to_column.
    set (sa := set_did_newline s false).
    assert (Hqa : quiet sa) by exact Hq.
    destruct (space_n_spec o (Z.to_nat (colv - column sa)) sa Hqa) as (A2 & _ & C2 & D2 & _). cbn zeta in *.
    set (s2 := space_n o sa (Z.to_nat (colv - column sa))) in *.
    rewrite (add_char_plain o s2 92 false C2) by discriminate.
    destruct (add_char1_plain o s2 92 C2) as (_ & _ & C3 & _ & _ & F); try discriminate.
    destruct (F ltac:(discriminate)) as (F0 & F1). cbn zeta in *.
    set (s3 := add_char1 o s2 92) in *.
    destruct (add_char_nl o s3 C3 F0) as (G & G0 & GL & GT & _). cbn zeta in *.
    set (s4 := add_char o s3 10 false) in *.
    assert (Ea : all_out sa = out s) by (unfold all_out; change (spaces sa) with (spaces s); rewrite H0; reflexivity).
    split.
    - unfold B. cbn [after_newline spaces last_char trailspace out]. rewrite G0, GL, GT, G.
      repeat split; try discriminate. cbn. intros [].
    - cbn [after_newline out]. rewrite G, F1, A2, Ea.
      apply ntb_nl; [cbn; intros [E|E]; discriminate|].
      rewrite (ntb_cons_other (Ch 92)) by discriminate. apply ntb_app; [apply spaces_not_nl|exact Hn].
  Qed.

  Lemma chunk_tr rp c s : B s -> ntb (out s) -> tr_ok c ->
    let s' := render_chunk o rp c s in B s' /\ ntb (out s').
  Proof.
    intros HB Hn Hok. destruct (start_quiet s HB) as (Hq & H0).
    pose proof HB as (_ & _ & _ & Hh).
    unfold render_chunk. unfold tr_ok in Hok.
    set (s1 := set_flags s (trailspace s) false) in *.
    assert (Eo : out s1 = out s) by reflexivity.
    destruct (ck c).
    - (* newline *)
      destruct (nl_loop_tr (Z.to_nat (nl_count c)) true c s1 Hq H0 Hok) as (A & B0 & L & T). cbn zeta in *.
      destruct (ntb_nls (Z.to_nat (nl_count c)) (out s) Hh Hn) as (N1 & N2).
      split.
      + unfold B. cbn [after_newline spaces last_char trailspace out]. rewrite A, Eo. repeat split; assumption.
      + cbn [after_newline out]. rewrite A, Eo. exact N1.
    - apply nlcont_tr; [exact Hq|exact H0|rewrite Eo; exact Hh|rewrite Eo; exact Hn].
    - (* comment *)
      destruct Hok as (S0 & SL). split.
      + unfold B. cbn. destruct HB as (_ & _ & T & _). repeat split; try assumption. intros [].
      + cbn [out]. rewrite (ntb_cons_other (Seg (seg c))) by discriminate. rewrite Eo. exact Hn.
    - (* ignored *)
      destruct (raw_tr (text c) s1) as ((l & E & F & G) & A & L & T). cbn zeta in *.
      destruct HB as (S0 & L0 & T0 & _).
      split.
      + unfold B. rewrite A, L, T, E, Eo. cbn. repeat split; try assumption. apply hd_ok_app; assumption.
      + rewrite E, Eo. apply ntb_app; assumption.
    - (* other *)
      destruct (text c) as [|x t] eqn:Et.
      + split; [|exact Hn]. destruct HB as (S0 & L0 & T0 & H1). unfold B. cbn. repeat split; assumption.
      + destruct Hok as [Hok|(Ht & Hnb & Hsm & Hck)]; [discriminate|].
        rewrite <- Et in *.
        apply other_tr; try assumption; try (rewrite Eo; assumption). rewrite Et. discriminate.
    - split; assumption.
  Qed.

  Lemma loop_tr l : forall rp s, B s -> ntb (out s) -> Forall tr_ok l ->
    let s' := render_loop o rp l s in B s' /\ ntb (out s').
  Proof.
    induction l as [|c l IH]; intros rp s HB Hn Hl; cbn [render_loop]; [split; assumption|].
    inversion Hl as [|? ? Hc Hl']; subst.
    destruct (chunk_tr rp c s HB Hn Hc) as (HB' & Hn'). cbn zeta in *.
    apply IH; assumption.
  Qed.

  (** Theorem: in the written output no line break is directly preceded by a blank or a tab *)
  Theorem no_trailing_blanks last l : last <> 13 -> Forall tr_ok l ->
    forall a b x, render o last 0 l = a ++ x :: NL :: b -> ~ blank_sym x.
  Proof.
    intros Hl Hok a b x E. unfold render in E.
    assert (HB : B (init_wstate last 0)) by (unfold B; cbn; repeat split; try assumption).
    destruct (loop_tr l [] (init_wstate last 0) HB I Hok) as (_ & Hn). cbn zeta in *.
    apply (ntb_spec _ Hn (rev b) (rev a) x).
    apply (f_equal (@rev sym)) in E. rewrite rev_involutive in E. rewrite E.
    rewrite rev_app_distr. cbn [rev]. rewrite <- !app_assoc. reflexivity.
  Qed.
End Trail.
