/* fsshim: LD_PRELOAD interposer that logs, and can fail or crash at, the k-th logical file operation
 * on paths below FSSHIM_ROOT.  Used to compare the operation-list model (coq/Model/FsProto.v) with
 * what the real binary does, and to replay every crash/fault point on the real binary.
 *
 *   FSSHIM_ROOT  only paths with this prefix are tracked (others pass through, uncounted)
 *   FSSHIM_LOG   log file (one line per logical operation)
 *   FSSHIM_PLAN  comma separated K:ACTION
 *        K:crash          _exit(137) before performing logical op K
 *        K:crashw=J       op K is a write: after J bytes of it reached the file (flushed), _exit(137)
 *        K:fail=ERRNO     op K fails with ERRNO and has no effect (fclose: the stream is closed, EOF returned)
 *        K:full=J         op K is a write: after J bytes the device is full (fd redirected to /dev/full);
 *                         the error surfaces wherever libc flushes, as with a real ENOSPC
 *        K:glitch=J       op K is a write: after J bytes the device is full for ONE buffer (the next 4097 bytes), then
 *                         accepts data again: an intermediate flush fails, the final one succeeds - only the stream's
 *                         sticky error flag (ferror) still knows
 *
 * Logical operations: consecutive writes (fputc/fwrite/fprintf) to one stream are ONE op, so are
 * consecutive freads / fgets / read()s on one stream or fd.
 */
#define _GNU_SOURCE
#include <dlfcn.h>
#include <errno.h>
#include <fcntl.h>
#include <stdarg.h>
#include <stdio.h>
#include <stdlib.h>
#include <string.h>
#include <sys/stat.h>
#include <sys/syscall.h>
#include <sys/types.h>
#include <unistd.h>
#include <utime.h>

#define MAXT 64
#define MAXPLAN 16

static const char *g_root;
static size_t g_rootlen;
static int g_log = -1;
static int g_init;
static long g_op = -1;          /* index of the current logical op */
static int g_last_kind;         /* 0 none, 1 write, 2 fread, 3 read(fd) */
static void *g_last_obj;

struct plan { long k; int kind; long arg; };   /* kind 1 crash 2 crashw 3 fail 4 full 5 glitch */
static struct plan g_plan[MAXPLAN];
static int g_nplan;

struct tstream { FILE *fp; char path[512]; long written; long limit; int limit_kind; int fail_close; long restore_at; int saved_fd; };
static struct tstream g_ts[MAXT];
struct tfd { int fd; char path[512]; };
static struct tfd g_tf[MAXT];

static FILE *(*r_fopen)(const char *, const char *);
static FILE *(*r_fopen64)(const char *, const char *);
static int (*r_fclose)(FILE *);
static int (*r_fputc)(int, FILE *);
static size_t (*r_fwrite)(const void *, size_t, size_t, FILE *);
static size_t (*r_fread)(void *, size_t, size_t, FILE *);
static char *(*r_fgets)(char *, int, FILE *);
static int (*r_vfprintf)(FILE *, const char *, va_list);
static int (*r_rename)(const char *, const char *);
static int (*r_unlink)(const char *);
static int (*r_mkdir)(const char *, mode_t);
static int (*r_utime)(const char *, const struct utimbuf *);
static int (*r_stat)(const char *, struct stat *);
static int (*r_open)(const char *, int, ...);
static ssize_t (*r_read)(int, void *, size_t);
static int (*r_close)(int);

static void logf_(const char *fmt, ...)
{
   char buf[1200];
   va_list ap;
   va_start(ap, fmt);
   int n = vsnprintf(buf, sizeof(buf), fmt, ap);
   va_end(ap);
   if (g_log >= 0 && n > 0) { if (n > (int)sizeof(buf)) n = sizeof(buf); syscall(SYS_write, g_log, buf, n); }
}

static int errno_of(const char *s)
{
   if (!strcmp(s, "ENOSPC")) return ENOSPC;
   if (!strcmp(s, "EACCES")) return EACCES;
   if (!strcmp(s, "EIO")) return EIO;
   if (!strcmp(s, "ENOENT")) return ENOENT;
   if (!strcmp(s, "EPERM")) return EPERM;
   return atoi(s) ? atoi(s) : EIO;
}

static void init(void)
{
   if (g_init) return;
   g_init = 1;
   r_fopen = dlsym(RTLD_NEXT, "fopen");
   r_fopen64 = dlsym(RTLD_NEXT, "fopen64");
   r_fclose = dlsym(RTLD_NEXT, "fclose");
   r_fputc = dlsym(RTLD_NEXT, "fputc");
   r_fwrite = dlsym(RTLD_NEXT, "fwrite");
   r_fread = dlsym(RTLD_NEXT, "fread");
   r_fgets = dlsym(RTLD_NEXT, "fgets");
   r_vfprintf = dlsym(RTLD_NEXT, "vfprintf");
   r_rename = dlsym(RTLD_NEXT, "rename");
   r_unlink = dlsym(RTLD_NEXT, "unlink");
   r_mkdir = dlsym(RTLD_NEXT, "mkdir");
   r_utime = dlsym(RTLD_NEXT, "utime");
   r_stat = dlsym(RTLD_NEXT, "stat");
   r_open = dlsym(RTLD_NEXT, "open");
   r_read = dlsym(RTLD_NEXT, "read");
   r_close = dlsym(RTLD_NEXT, "close");
   g_root = getenv("FSSHIM_ROOT");
   g_rootlen = g_root ? strlen(g_root) : 0;
   const char *lg = getenv("FSSHIM_LOG");
   if (lg && g_root) g_log = syscall(SYS_open, lg, O_WRONLY | O_CREAT | O_APPEND, 0644);
   const char *pl = getenv("FSSHIM_PLAN");
   if (pl)
   {
      char tmp[512];
      strncpy(tmp, pl, sizeof(tmp) - 1); tmp[sizeof(tmp) - 1] = 0;
      char *save = NULL;
      for (char *t = strtok_r(tmp, ",", &save); t && g_nplan < MAXPLAN; t = strtok_r(NULL, ",", &save))
      {
         char *c = strchr(t, ':');
         if (!c) continue;
         *c++ = 0;
         struct plan *p = &g_plan[g_nplan++];
         p->k = atol(t);
         if (!strcmp(c, "crash")) p->kind = 1;
         else if (!strncmp(c, "crashw=", 7)) { p->kind = 2; p->arg = atol(c + 7); }
         else if (!strncmp(c, "fail=", 5)) { p->kind = 3; p->arg = errno_of(c + 5); }
         else if (!strncmp(c, "glitch=", 7)) { p->kind = 5; p->arg = atol(c + 7); }
         else if (!strncmp(c, "full=", 5)) { p->kind = 4; p->arg = atol(c + 5); }
         else g_nplan--;
      }
   }
}

static int tracked(const char *p)
{
   init();
   return g_root && p && !strncmp(p, g_root, g_rootlen);
}

static struct tstream *find_ts(FILE *fp)
{
   for (int i = 0; i < MAXT; i++) if (g_ts[i].fp == fp && fp) return &g_ts[i];
   return NULL;
}

static struct tfd *find_tf(int fd)
{
   for (int i = 0; i < MAXT; i++) if (g_tf[i].fd == fd && g_tf[i].path[0]) return &g_tf[i];
   return NULL;
}

static struct plan *plan_for(long k)
{
   for (int i = 0; i < g_nplan; i++) if (g_plan[i].k == k) return &g_plan[i];
   return NULL;
}

/* start a new logical op; returns the plan entry for it (or NULL). Handles 'crash'. */
static struct plan *new_op(int kind, void *obj)
{
   g_op++;
   g_last_kind = kind;
   g_last_obj = obj;
   struct plan *p = plan_for(g_op);
   if (p && p->kind == 1)
   {
      logf_("%ld CRASH\n", g_op);
      _exit(137);
   }
   return p;
}

static const char *rel(const char *p) { return p + g_rootlen; }

/* ---- fopen / fclose ---------------------------------------------------- */
static FILE *do_fopen(const char *path, const char *mode, int is64)
{
   init();
   if (!tracked(path)) return is64 && r_fopen64 ? r_fopen64(path, mode) : r_fopen(path, mode);
   struct plan *p = new_op(0, NULL);
   if (p && p->kind == 3)
   {
      logf_("%ld fopen %s %s FAIL %ld\n", g_op, rel(path), mode, p->arg);
      errno = (int)p->arg;
      return NULL;
   }
   FILE *fp = r_fopen(path, mode);
   logf_("%ld fopen %s %s %s\n", g_op, rel(path), mode, fp ? "ok" : "ERR");
   if (fp)
   {
      for (int i = 0; i < MAXT; i++)
      {
         if (!g_ts[i].fp)
         {
            g_ts[i].fp = fp; g_ts[i].written = 0; g_ts[i].limit = -1; g_ts[i].limit_kind = 0; g_ts[i].fail_close = 0; g_ts[i].restore_at = -1; g_ts[i].saved_fd = -1;
            strncpy(g_ts[i].path, path, sizeof(g_ts[i].path) - 1);
            break;
         }
      }
   }
   return fp;
}
FILE *fopen(const char *path, const char *mode) { return do_fopen(path, mode, 0); }
FILE *fopen64(const char *path, const char *mode) { return do_fopen(path, mode, 1); }

int fclose(FILE *fp)
{
   init();
   struct tstream *t = find_ts(fp);
   if (!t) return r_fclose(fp);
   struct plan *p = new_op(0, NULL);
   int rc = r_fclose(fp);
   int e = errno;
   if (p && p->kind == 3) { rc = EOF; e = (int)p->arg; }
   logf_("%ld fclose %s %s\n", g_op, rel(t->path), rc == 0 ? "ok" : "ERR");
   t->fp = NULL;
   errno = e;
   return rc;
}

/* ---- writes ------------------------------------------------------------ */
static void before_write(struct tstream *t, FILE *fp)
{
   if (!(g_last_kind == 1 && g_last_obj == fp))
   {
      struct plan *p = new_op(1, fp);
      logf_("%ld write %s\n", g_op, rel(t->path));
      if (p && (p->kind == 2 || p->kind == 4 || p->kind == 5)) { t->limit = t->written + p->arg; t->limit_kind = p->kind; }
      if (p && p->kind == 3) { t->limit = t->written; t->limit_kind = 4; }
   }
}

/* called before each byte: enforce the limit */
static void at_byte(struct tstream *t, FILE *fp)
{
   if (t->restore_at >= 0 && t->written == t->restore_at)
   {
      fflush(fp);                       /* fails: the stream's error flag is set, the block is lost */
      if (t->saved_fd >= 0) { dup2(t->saved_fd, fileno(fp)); syscall(SYS_close, t->saved_fd); t->saved_fd = -1; }
      logf_("%ld GLITCH over after %ld bytes\n", g_op, t->written);
      t->restore_at = -1;
   }
   if (t->limit >= 0 && t->written == t->limit)
   {
      fflush(fp);
      if (t->limit_kind == 2)
      {
         logf_("%ld CRASHW after %ld bytes\n", g_op, t->written);
         _exit(137);
      }
      if (t->limit_kind == 5) { t->saved_fd = dup(fileno(fp)); t->restore_at = t->written + 4097; }
      int fd = syscall(SYS_open, "/dev/full", O_WRONLY);
      if (fd >= 0) { dup2(fd, fileno(fp)); syscall(SYS_close, fd); }
      logf_("%ld FULL after %ld bytes\n", g_op, t->written);
      t->limit = -1;
   }
}

int fputc(int c, FILE *fp)
{
   init();
   struct tstream *t = find_ts(fp);
   if (!t) return r_fputc(c, fp);
   before_write(t, fp);
   at_byte(t, fp);
   int rc = r_fputc(c, fp);
   t->written++;
   return rc;
}

size_t fwrite(const void *ptr, size_t size, size_t n, FILE *fp)
{
   init();
   struct tstream *t = find_ts(fp);
   if (!t) return r_fwrite(ptr, size, n, fp);
   before_write(t, fp);
   size_t total = size * n;
   if (t->limit >= 0 && t->written + (long)total > t->limit)
   {
      size_t first = (size_t)(t->limit - t->written);
      if (first) r_fwrite(ptr, 1, first, fp);
      t->written += first;
      at_byte(t, fp);
      size_t w = r_fwrite((const char *)ptr + first, 1, total - first, fp);
      t->written += w;
      return (first + w) / (size ? size : 1) >= n ? n : (first + w) / (size ? size : 1);
   }
   size_t rc = r_fwrite(ptr, size, n, fp);
   t->written += total;
   return rc;
}

static int do_vfprintf(FILE *fp, const char *fmt, va_list ap)
{
   init();
   struct tstream *t = find_ts(fp);
   if (!t) return r_vfprintf(fp, fmt, ap);
   char buf[4096];
   int n = vsnprintf(buf, sizeof(buf), fmt, ap);
   if (n < 0) return n;
   if (n >= (int)sizeof(buf)) n = sizeof(buf) - 1;
   return (int)fwrite(buf, 1, n, fp);
}
int fprintf(FILE *fp, const char *fmt, ...) { va_list ap; va_start(ap, fmt); int r = do_vfprintf(fp, fmt, ap); va_end(ap); return r; }
int __fprintf_chk(FILE *fp, int flag, const char *fmt, ...) { (void)flag; va_list ap; va_start(ap, fmt); int r = do_vfprintf(fp, fmt, ap); va_end(ap); return r; }
int vfprintf(FILE *fp, const char *fmt, va_list ap) { return do_vfprintf(fp, fmt, ap); }

/* ---- reads ------------------------------------------------------------- */
size_t fread(void *ptr, size_t size, size_t n, FILE *fp)
{
   init();
   struct tstream *t = find_ts(fp);
   if (!t) return r_fread(ptr, size, n, fp);
   if (!(g_last_kind == 2 && g_last_obj == fp))
   {
      struct plan *p = new_op(2, fp);
      logf_("%ld fread %s\n", g_op, rel(t->path));
      if (p && p->kind == 3) { errno = (int)p->arg; return 0; }
   }
   return r_fread(ptr, size, n, fp);
}

char *fgets(char *s, int size, FILE *fp)
{
   init();
   struct tstream *t = find_ts(fp);
   if (!t) return r_fgets(s, size, fp);
   if (!(g_last_kind == 2 && g_last_obj == fp))
   {
      struct plan *p = new_op(2, fp);
      logf_("%ld fread %s\n", g_op, rel(t->path));
      if (p && p->kind == 3) { errno = (int)p->arg; return NULL; }
   }
   return r_fgets(s, size, fp);
}

/* ---- path ops ---------------------------------------------------------- */
int rename(const char *a, const char *b)
{
   init();
   if (!tracked(a) && !tracked(b)) return r_rename(a, b);
   struct plan *p = new_op(0, NULL);
   if (p && p->kind == 3) { logf_("%ld rename %s %s FAIL %ld\n", g_op, rel(a), rel(b), p->arg); errno = (int)p->arg; return -1; }
   int rc = r_rename(a, b);
   logf_("%ld rename %s %s %s\n", g_op, rel(a), rel(b), rc == 0 ? "ok" : "ERR");
   return rc;
}

int unlink(const char *a)
{
   init();
   if (!tracked(a)) return r_unlink(a);
   struct plan *p = new_op(0, NULL);
   if (p && p->kind == 3) { logf_("%ld unlink %s FAIL %ld\n", g_op, rel(a), p->arg); errno = (int)p->arg; return -1; }
   int rc = r_unlink(a);
   logf_("%ld unlink %s %s\n", g_op, rel(a), rc == 0 ? "ok" : "ERR");
   return rc;
}

int mkdir(const char *a, mode_t m)
{
   init();
   if (!tracked(a)) return r_mkdir(a, m);
   struct plan *p = new_op(0, NULL);
   if (p && p->kind == 3) { logf_("%ld mkdir %s FAIL %ld\n", g_op, rel(a), p->arg); errno = (int)p->arg; return -1; }
   int rc = r_mkdir(a, m);
   int e = errno;
   logf_("%ld mkdir %s %s\n", g_op, rel(a), rc == 0 ? "ok" : (e == EEXIST ? "EEXIST" : "ERR"));
   errno = e;
   return rc;
}

int utime(const char *a, const struct utimbuf *t)
{
   init();
   if (!tracked(a)) return r_utime(a, t);
   struct plan *p = new_op(0, NULL);
   if (p && p->kind == 3) { logf_("%ld utime %s FAIL %ld\n", g_op, rel(a), p->arg); errno = (int)p->arg; return -1; }
   int rc = r_utime(a, t);
   logf_("%ld utime %s %s\n", g_op, rel(a), rc == 0 ? "ok" : "ERR");
   return rc;
}

static int do_stat(const char *a, struct stat *st)
{
   init();
   if (!r_stat) { return syscall(SYS_newfstatat, AT_FDCWD, a, st, 0); }
   return r_stat(a, st);
}

int stat(const char *a, struct stat *st)
{
   init();
   if (!tracked(a)) return do_stat(a, st);
   struct plan *p = new_op(0, NULL);
   if (p && p->kind == 3) { logf_("%ld stat %s FAIL %ld\n", g_op, rel(a), p->arg); errno = (int)p->arg; return -1; }
   int rc = do_stat(a, st);
   logf_("%ld stat %s %s\n", g_op, rel(a), rc == 0 ? "ok" : "ERR");
   return rc;
}
int stat64(const char *a, struct stat64 *st) { return stat(a, (struct stat *)st); }
int __xstat(int ver, const char *a, struct stat *st) { (void)ver; return stat(a, st); }
int __xstat64(int ver, const char *a, struct stat64 *st) { (void)ver; return stat(a, (struct stat *)st); }

int open(const char *a, int flags, ...)
{
   init();
   mode_t m = 0;
   if (flags & O_CREAT) { va_list ap; va_start(ap, flags); m = va_arg(ap, int); va_end(ap); }
   if (!tracked(a)) return r_open(a, flags, m);
   struct plan *p = new_op(0, NULL);
   if (p && p->kind == 3) { logf_("%ld open %s FAIL %ld\n", g_op, rel(a), p->arg); errno = (int)p->arg; return -1; }
   int fd = r_open(a, flags, m);
   logf_("%ld open %s %s\n", g_op, rel(a), fd >= 0 ? "ok" : "ERR");
   if (fd >= 0)
   {
      for (int i = 0; i < MAXT; i++)
      {
         if (!g_tf[i].path[0]) { g_tf[i].fd = fd; strncpy(g_tf[i].path, a, sizeof(g_tf[i].path) - 1); break; }
      }
   }
   return fd;
}
int open64(const char *a, int flags, ...)
{
   mode_t m = 0;
   if (flags & O_CREAT) { va_list ap; va_start(ap, flags); m = va_arg(ap, int); va_end(ap); }
   return open(a, flags, m);
}

ssize_t read(int fd, void *buf, size_t n)
{
   init();
   struct tfd *t = find_tf(fd);
   if (!t) return r_read(fd, buf, n);
   if (!(g_last_kind == 3 && g_last_obj == (void *)t))
   {
      struct plan *p = new_op(3, (void *)t);
      logf_("%ld read %s\n", g_op, rel(t->path));
      if (p && p->kind == 3) { errno = (int)p->arg; return -1; }
   }
   return r_read(fd, buf, n);
}

int close(int fd)
{
   init();
   struct tfd *t = find_tf(fd);
   if (!t) return r_close(fd);
   new_op(0, NULL);
   logf_("%ld close %s\n", g_op, rel(t->path));
   t->path[0] = 0;
   t->fd = -1;
   return r_close(fd);
}
